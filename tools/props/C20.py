"""C20 — spin-weighted harmonics are orthonormal and sphere extraction inverts synthesis.

Proof part (Lean, all parameters): completeness/legality of the closed-form
sum of maths.sYlm and its factorial helper (T1), exact discrete orthogonality
in m on the phi grid of Psi4_lm (T2), identification with the associated
Legendre functions at spin 0 for l <= 4 and the phase convention (T3), the
conjugation symmetry for all (s, l, m) (T4), linear structure of coefficient /
reconstruction maps (T5), decision logic of interpolate's bounds check (T6).
Second module Props/C20b.lean: continuous orthonormality over the sphere
(phi integral and half-angle Beta integral in general; closed form of every
inner product for all integers; orthonormality for |s|<=2, l,l'<=12 from a
kernel-decided integer table; norm 1 at m=+-l for all l) (T7-T10), the discrete
Gram matrix of the Psi4_lm grid = delta_mm' x (continuous value + theta-midpoint
error), the round-trip defect in closed form, DiscreteOrthonormal is false on
the code's grid (T11-T15), spin 0 for ALL l (T16), scipy's linear
RegularGridInterpolator exact at nodes / on trilinear fields / convex (T17).
Third module Props/C20c.lean: orthonormality over the sphere for ALL integers
s, l, m, l', m' (T18, algebraic integration by parts on the Rodrigues form of
the code's sum in Q[X]; T19 the integer identities), the discrete Gram matrix
and the round trip for all spins and degrees with an explicit O(1/(Ntheta+1)^2)
bound and convergence to the identity as Ntheta -> infinity (T20, T21), the
composite midpoint rule (T22).

Tie: Model/Harm.lean is hand-written; it is compared with the real code
  * maths.sYlm at rational points (c, sn) of the unit circle (Pythagorean
    triples, theta = 2 atan2(sn, c)), phi = 0 and a random phi.  cos/sin/sqrt/pi
    are transcendental, so this comparison cannot be exact: relative 1e-12 of
    the sum of |terms| after dividing out the normalisation, whose radicand
    (a rational times 1/pi) is produced exactly by the model;
  * the angular grids, weights, spin and lmax that Psi4_lm hands to
    sYlm_coefficients (captured by wrapping that function) — bitwise against
    pi * (j + 1/2) / (N + 1) built from the model's rationals;
  * the key order of the coefficient dictionary — exactly;
  * sYlm_coefficients / sYlm_reconstruct called repeatedly in ONE process on
    different samplings of identical array shape, in varying order and with the
    first one revisited: each call equals the model sums at the angles passed in
    that call (the functions have no hidden state; the Lean model is a pure
    function by construction, the correspondence carries this to the code);
  * the accept / refuse decision of numerical.interpolate on dyadic-rational
    grids and targets incl. boundary points — exactly;
  * Model/Interp.lean (linear RegularGridInterpolator) against
    numerical.interpolate(method='linear') on dyadic data with power-of-two
    spacings (every float operation exact) — exactly; the extrapolation branch
    and the compiled interval search of scipy — exactly.

Fourth module Props/C20d.lean: the classical error bound of (tri)linear
interpolation (1-D by Rolle, tensor product on a cell, lifted through the cell
search of the model to every target inside the grid: (hx^2 Mx + hy^2 My +
hz^2 Mz)/8 with the pure second partials only; T23-T26), the real copy of
Model/Interp equals the executable model on rational data (T25), and the sphere
extraction of Psi4_lm end to end on the models: for a field with bounded second
partials that is band-limited / a pure harmonic on the extraction sphere the
extracted coefficient is the amplitude up to C1 (hx^2+hy^2+hz^2) + C2/(Ntheta+1)^2
with explicit constants, and converges along every sequence of grids with widths
-> 0 and Ntheta -> infinity (T27-T30); local / node-wise versions (T31).  The
sentinel checks both proven bounds on the REAL code (s_interp_bound, s_psi4_bound).

NOT proven (sentinel only, on the REAL code, oracle independent of model and
code): the O(h^2) rate for fields that are NOT smooth in Cartesian coordinates
(A (s)Y_lm(theta,phi) g(r) is in general discontinuous across the polar axis; the
injected pure modes of s_psi4 are of this kind — only the node-wise T31 applies),
interpolation methods other than 'linear', IEEE round-off.  The sentinel also
keeps Gauss-Legendre x trapezoid quadrature of all pairs, the agreement with an
independent Wigner-d/Jacobi implementation and with scipy's ordinary harmonics
at s = 0 as independent cross-checks of the model tie.
"""
import math
from fractions import Fraction

import numpy as np

from lib import fw

MODULE = "AurelVerif.Props.C20"
THEOREMS = ["AurelVerif.C20." + t for t in (
    "sum_range_exact", "phi_quadrature_orthogonal", "phi_quadrature_exact", "psi4_grid_m_orthogonal",
    "spin0_structure", "spin0_is_standard_upto_phase", "conj_symmetry_terms", "conj_symmetry",
    "coefficients_linear", "coefficients_stateless", "roundtrip_partial", "interpolate_bounds_decision", "grid_formulas")]
MODULE_B = "AurelVerif.Props.C20b"
THEOREMS_B = ["AurelVerif.C20." + t for t in (
    "sphere_integrals", "continuous_gram_closed_form", "orthonormal_upto_12", "norm_extreme_orders_all_l",
    "grid_gram_is_theta_midpoint", "grid_gram_defect", "roundtrip_defect_closed_form", "discrete_orthonormal_is_false",
    "discrete_orthonormal_is_false_spin_m2",
    "theta_midpoint_on_sines", "spin0_all_degrees", "linear_interpolation_exact")]
MODULE_C = "AurelVerif.Props.C20c"
THEOREMS_C = ["AurelVerif.C20." + t for t in (
    "orthonormal_all", "gram_integer_identities", "grid_gram_defect_all", "roundtrip_converges", "midpoint_rule")]
MODULE_D = "AurelVerif.Props.C20d"
THEOREMS_D = ["AurelVerif.C20." + t for t in (
    "linear_interp_error_1d", "trilinear_interp_error_cell", "real_interpolant_is_model", "linear_interpolation_error",
    "psi4lm_extraction_error", "psi4lm_pure_mode", "psi4lm_rate", "psi4lm_converges", "extraction_error_local")]
LEAN_FILES = ["AurelVerif/Props/C20d.lean", "AurelVerif/Lemmas/C20LinErr.lean", "AurelVerif/Lemmas/C20InterpR.lean",
              "AurelVerif/Lemmas/C20Extract.lean", "AurelVerif/Lemmas/C20ExtractEx.lean",
              "AurelVerif/Props/C20c.lean", "AurelVerif/Lemmas/C20JacobiInteg.lean", "AurelVerif/Lemmas/C20JacobiPoly.lean",
              "AurelVerif/Lemmas/C20Jacobi.lean", "AurelVerif/Lemmas/C20JacobiAll.lean",
              "AurelVerif/Lemmas/C20Midpoint.lean", "AurelVerif/Lemmas/C20MidpointHarm.lean",
              "AurelVerif/Lemmas/C20QuadAll.lean",
              "AurelVerif/Props/C20b.lean", "AurelVerif/Lemmas/C20Beta.lean", "AurelVerif/Lemmas/C20GramZ.lean",
              "AurelVerif/Lemmas/C20Ortho.lean", "AurelVerif/Lemmas/C20OrthoTable.lean",
              "AurelVerif/Lemmas/C20OrthoTableM2.lean", "AurelVerif/Lemmas/C20OrthoTableM1.lean",
              "AurelVerif/Lemmas/C20OrthoTableZ0.lean", "AurelVerif/Lemmas/C20OrthoTableP1.lean",
              "AurelVerif/Lemmas/C20OrthoTableP2.lean", "AurelVerif/Lemmas/C20Quad.lean", "AurelVerif/Lemmas/C20QuadS2.lean",
              "AurelVerif/Lemmas/C20Spin0Poly.lean", "AurelVerif/Lemmas/C20Spin0.lean",
              "AurelVerif/Lemmas/C20Interp.lean", "AurelVerif/Model/Interp.lean", "Driver/C20Interp.lean",
              "AurelVerif/Props/C20.lean", "AurelVerif/Lemmas/Harm.lean", "AurelVerif/Lemmas/HarmPhi.lean",
              "AurelVerif/Lemmas/HarmLegendre.lean", "AurelVerif/Lemmas/HarmStd.lean",
              "AurelVerif/Spec/Harm.lean", "AurelVerif/Model/Harm.lean", "Driver/C20.lean"]
SPINS = (-2, -1, 0, 1, 2)
# Pythagorean triples (a, b, h): (a/h)^2 + (b/h)^2 = 1 exactly
TRIPLES = [(3, 4, 5), (5, 12, 13), (8, 15, 17), (7, 24, 25), (20, 21, 29), (12, 35, 37), (9, 40, 41),
           (28, 45, 53), (11, 60, 61), (16, 63, 65), (33, 56, 65), (48, 55, 73), (36, 77, 85),
           (13, 84, 85), (39, 80, 89), (65, 72, 97)]
TOL = 1e-12


def F(text):
    n, _, d = text.partition("/")
    return Fraction(int(n), int(d or 1))


# --------------------------------------------------------------------------
# independent oracles

def wigner_d(l, mp, m, theta):
    """Wigner small d^l_{mp,m}(theta) through Jacobi polynomials (scipy's
    recurrence), not through the binomial sum the code uses."""
    from scipy.special import comb, eval_jacobi
    k = min(l + m, l - m, l + mp, l - mp)
    if k == l + m:
        a, lam = mp - m, mp - m
    elif k == l - m:
        a, lam = m - mp, 0
    elif k == l + mp:
        a, lam = m - mp, 0
    else:
        a, lam = mp - m, mp - m
    b = 2 * l - 2 * k - a
    pref = (-1) ** lam * math.sqrt(comb(2 * l - k, k + a, exact=True)) / math.sqrt(comb(k + b, b, exact=True))
    return pref * np.sin(theta / 2) ** a * np.cos(theta / 2) ** b * eval_jacobi(k, a, b, np.cos(theta))


def oracle_sYlm(s, l, m, theta, phi):
    """The harmonic the code documents (Goldberg et al. 1967 eq. 3.1):
    (-1)^m times the usual (-1)^s sqrt((2l+1)/4pi) d^l_{m,-s}(theta) e^{i m phi};
    zero for l < |s| or |m| > l."""
    theta = np.asarray(theta, dtype=float)
    if l < abs(s) or abs(m) > l:
        return np.zeros(np.broadcast(theta, phi).shape, dtype=complex)
    return ((-1) ** (m + s) * math.sqrt((2 * l + 1) / (4 * math.pi))
            * wigner_d(l, m, -s, theta) * np.exp(1j * m * np.asarray(phi)))


def scipy_Ylm(l, m, theta, phi):
    import scipy.special as sc
    if hasattr(sc, "sph_harm_y"):
        return sc.sph_harm_y(l, m, theta, phi)
    return sc.sph_harm(m, l, phi, theta)


def code_grid(ntheta):
    """The angular grid of Psi4_lm as a formula (used by sentinels that call
    sYlm_coefficients / sYlm_reconstruct directly)."""
    th = np.pi * np.arange(0.5, ntheta + 1.5, 1) / (ntheta + 1)
    nphi = 2 * ntheta
    ph = 2 * np.pi * np.arange(0.5, nphi + 1.5, 1) / (nphi + 1)
    TH, PH = np.meshgrid(th, ph, indexing="ij")
    return TH, PH, th[1] - th[0], ph[1] - ph[0]


# --------------------------------------------------------------------------
# correspondence

def corr_ylm(ctx):
    from aurel import maths
    lmax = ctx.budget(6, 10)
    npts = ctx.budget(5, 10)
    trip = ctx.rng.sample(TRIPLES, npts)
    pts = [(Fraction(1), Fraction(0)), (Fraction(0), Fraction(1))]
    for a, b, h in trip:
        pts.append((Fraction(a, h), Fraction(b, h)) if ctx.rng.random() < 0.5 else (Fraction(b, h), Fraction(a, h)))
    theta = np.array([2 * math.atan2(float(sn), float(c)) for c, sn in pts])
    phi1 = ctx.rng.uniform(0.1, 6.2)
    combos = []
    for s in SPINS:
        for l in range(0, lmax + 1):
            for m in range(-l, l + 1):
                combos.append((s, l, m))
        for l in range(0, 4):               # |m| > l: empty loop, value 0
            combos += [(s, l, l + 1), (s, l, -l - 2)]
    lines = ["ylm %d %d %d %d %d %d %d" % (s, l, m, c.numerator, c.denominator, sn.numerator, sn.denominator)
             for (s, l, m) in combos for (c, sn) in pts]
    outs = ctx.run_driver("Driver/C20.lean", lines)
    bad, k, nzero, worst = [], 0, 0, 0.0
    for (s, l, m) in combos:
        v0 = np.asarray(maths.sYlm(s, l, m, theta, 0.0)) * np.ones(len(pts), dtype=complex)
        v1 = np.asarray(maths.sYlm(s, l, m, theta, phi1)) * np.ones(len(pts), dtype=complex)
        for i, (c, sn) in enumerate(pts):
            f = outs[k].split(" ")
            k += 1
            if f[0] != "ok":
                bad.append((lines[k - 1], "driver: " + outs[k - 1]))
                continue
            P, A, R, ph, nt = F(f[1]), F(f[2]), F(f[3]), int(f[4]), int(f[5])
            norm = math.sqrt(float(R) / math.pi)
            tol = TOL * float(A) if A > 0 else TOL
            d = abs(v0[i].real / norm - float(P))
            di = abs(v0[i].imag / norm)
            dp = abs(v1[i] - v0[i] * np.exp(1j * ph * phi1)) / norm
            if nt == 0:
                nzero += 1
                if v0[i] != 0 or v1[i] != 0:
                    bad.append((lines[k - 1], "model: empty loop, value 0; code returns %r" % (v0[i],)))
                continue
            if A > 0:
                worst = max(worst, d / float(A))
            if not (d <= tol and di <= tol and dp <= 4 * tol + 4 * TOL * abs(v0[i]) / norm):
                bad.append((lines[k - 1], "code/norm = %r, model polynomial = %r (|terms| %r), phase dev %r"
                            % (v0[i] / norm, float(P), float(A), dp)))
    ctx.cov["ylm_cases"] = len(lines)
    ctx.cov["ylm_lmax"] = lmax
    ctx.cov["ylm_points"] = ["%s,%s" % p for p in pts]
    ctx.cov["ylm_empty_loop_cases"] = nzero
    ctx.cov["ylm_worst_rel_dev"] = worst
    ctx.sample({"line": lines[len(pts) * 30 + 3], "model": outs[len(pts) * 30 + 3][:200]})
    ctx.obligation("correspondence: Model/Harm sYlm polynomial x radicand x phase vs maths.sYlm "
                   "(%d cases, s in -2..2, l <= %d, |m| <= l and beyond, float tol 1e-12)" % (len(lines), lmax),
                   not bad, "; ".join("%s -> %s" % b for b in bad[:4]), kind="correspondence")
    return bad


def capture_psi4_grid(nx, ny, nz, lmax):
    """Run the real Psi4_lm on a zero field and return what it passes to
    maths.sYlm_coefficients."""
    import aurel
    from aurel import maths
    param = {"Nx": nx, "Ny": ny, "Nz": nz, "xmin": -1.0, "ymin": -1.0, "zmin": -1.0,
             "dx": 2.0 / (nx - 1), "dy": 2.0 / (ny - 1), "dz": 2.0 / (nz - 1)}
    fd = aurel.FiniteDifference(param, verbose=False)
    if (nx + ny + nz + lmax) % 2:
        rel = aurel.AurelCore(fd, verbose=False, lmax=lmax, extract_radii=[0.5])
    else:
        # `lmax` is documented as "also attribute": set after construction, as a user may (the angular grid is a
        # function of the lmax in force when Psi4_lm is requested)
        rel = aurel.AurelCore(fd, verbose=False, extract_radii=[0.5])
        rel.lmax = lmax
    rel.data["Weyl_Psi4r"] = np.zeros((nx, ny, nz))
    rel.data["Weyl_Psi4i"] = np.zeros((nx, ny, nz))
    cap = []
    orig = maths.sYlm_coefficients

    def spy(s, lm, f, theta, phi, w, dphi):
        cap.append({"s": s, "lmax": lm, "fshape": tuple(f.shape), "theta": np.array(theta), "phi": np.array(phi),
                    "w": np.array(w), "dphi": dphi})
        return {}
    maths.sYlm_coefficients = spy
    try:
        rel["Psi4_lm"]
    finally:
        maths.sYlm_coefficients = orig
    return cap


def grid_diff(cap, out):
    """None if what Psi4_lm passed on equals the model's grid, else a text."""
    f = out.split(" ")
    if f[0] != "ok":
        return "driver: " + out
    nth, nph = int(f[1]), int(f[2])
    thq = [F(x) for x in f[3].split(",")]
    dthq = F(f[4])
    phq = [F(x) for x in f[5].split(",")]
    dphq = F(f[6])
    if len(cap) != 1:
        return "sYlm_coefficients called %d times for one radius" % len(cap)
    c = cap[0]
    if c["s"] != -2:
        return "spin passed = %r, expected -2" % (c["s"],)
    if c["theta"].shape != (nth + 1, nph + 1) or c["phi"].shape != (nth + 1, nph + 1) or c["fshape"] != (nth + 1, nph + 1):
        return "grid shape %r, model (%d, %d)" % (c["theta"].shape, nth + 1, nph + 1)
    # the model's rationals are (j + 1/2)/(N + 1) and 2(k + 1/2)/(Nphi + 1) ...
    for j, q in enumerate(thq):
        if q != Fraction(2 * j + 1, 2 * (nth + 1)):
            return "model theta node %d = %s" % (j, q)
    for k, q in enumerate(phq):
        if q != Fraction(2 * (2 * k + 1), 2 * (nph + 1)):
            return "model phi node %d = %s" % (k, q)
    # ... and the code's floats are these rationals times pi, evaluated as pi * (j + 1/2) / (N + 1)
    th = np.array([np.pi * (j + 0.5) / (nth + 1) for j in range(nth + 1)])
    ph = np.array([2 * np.pi * (k + 0.5) / (nph + 1) for k in range(nph + 1)])
    if not (np.array_equal(c["theta"], np.repeat(th[:, None], nph + 1, axis=1))):
        j = int(np.argmax(np.abs(c["theta"][:, 0] - th)))
        return "theta[%d] = %r, model pi*%s = %r" % (j, c["theta"][j, 0], thq[j], th[j])
    if not (np.array_equal(c["phi"], np.repeat(ph[None, :], nth + 1, axis=0))):
        k = int(np.argmax(np.abs(c["phi"][0, :] - ph)))
        return "phi[%d] = %r, model pi*%s = %r" % (k, c["phi"][0, k], phq[k], ph[k])
    dth, dph = th[1] - th[0], ph[1] - ph[0]
    if c["dphi"] != dph or abs(c["dphi"] - float(dphq) * np.pi) > 8 * np.spacing(np.pi):
        return "dphi = %r, model pi*%s = %r" % (c["dphi"], dphq, float(dphq) * np.pi)
    if abs(dth - float(dthq) * np.pi) > 8 * np.spacing(np.pi):
        return "dtheta model pi*%s" % dthq
    w = np.sin(np.repeat(th[:, None], nph + 1, axis=1)) * dth
    if not np.array_equal(c["w"], w):
        j = int(np.argmax(np.abs(c["w"][:, 0] - w[:, 0])))
        return "theta weight[%d] = %r, model sin(theta_j)*dtheta = %r" % (j, c["w"][j, 0], w[j, 0])
    return None


def corr_grid(ctx):
    n = ctx.budget(10, 40)
    cases = [(4, 4, 4, 8), (3, 5, 2, 0), (12, 12, 12, 8), (16, 9, 20, 3)]
    while len(cases) < n:
        cases.append((ctx.rng.randint(2, 14), ctx.rng.randint(2, 14), ctx.rng.randint(2, 14), ctx.rng.randint(0, 9)))
    lines = ["grid %d %d %d %d" % c for c in cases]
    outs = ctx.run_driver("Driver/C20.lean", lines)
    bad = []
    for c, line, out in zip(cases, lines, outs):
        d = grid_diff(capture_psi4_grid(*c), out)
        if d:
            bad.append((line, d))
    ctx.cov["grid_cases"] = len(cases)
    ctx.sample({"line": lines[1], "model": outs[1][:200]})
    ctx.obligation("correspondence: angular grids, weights, spin, lmax handed over by Psi4_lm vs Model/Harm (%d cases, exact)"
                   % len(cases), not bad, "; ".join("%s -> %s" % b for b in bad[:4]), kind="correspondence")
    return bad


def corr_modes(ctx):
    from aurel import maths
    top = ctx.budget(5, 9)
    lines = ["modes %d" % L for L in range(top + 1)]
    outs = ctx.run_driver("Driver/C20.lean", lines)
    bad = []
    th, ph = np.meshgrid(np.array([0.4, 1.3]), np.array([0.2, 2.0, 4.1]), indexing="ij")
    for L, out in zip(range(top + 1), outs):
        keys = list(maths.sYlm_coefficients(-2, L, np.ones_like(th, dtype=complex), th, ph, np.sin(th) * 0.1, 0.1).keys())
        mine = [tuple(int(x) for x in t.split(":")) for t in out[3:].split(",")]
        if [tuple(int(x) for x in kk) for kk in keys] != mine:
            bad.append(("modes %d" % L, "code keys %r model %r" % (keys[:6], mine[:6])))
    ctx.obligation("correspondence: key order of the coefficient dictionary (lmax 0..%d, exact)" % top,
                   not bad, "; ".join("%s -> %s" % b for b in bad[:3]), kind="correspondence")
    return bad


def corr_history(ctx):
    """sYlm_coefficients / sYlm_reconstruct are functions of the angles passed in
    THIS call only: several samplings of identical array shape (different
    Pythagorean angles, different phi), visited in a seed-dependent order in ONE
    process, the first one again at the end; every call is compared with
    sum a_lm Y_lm and sum conj(Y_lm) f w dphi built from the Lean model's
    polynomial x radicand x phase at the angles actually passed."""
    from aurel import maths
    shape, lmax = (2, 3), 3
    npt = shape[0] * shape[1]
    keys = [(l, m) for l in range(lmax + 1) for m in range(-l, l + 1)]
    spins = [-2, ctx.rng.choice([-1, 0, 1, 2])]
    nsamp = ctx.budget(3, 5)
    samp = []
    for _ in range(nsamp):
        pts = []
        for a, b, h in ctx.rng.sample(TRIPLES, npt):
            pts.append((Fraction(a, h), Fraction(b, h)) if ctx.rng.random() < 0.5 else (Fraction(b, h), Fraction(a, h)))
        th = np.array([2 * math.atan2(float(sn), float(c)) for c, sn in pts]).reshape(shape)
        ph = np.array([ctx.rng.uniform(0, 2 * math.pi) for _ in range(npt)]).reshape(shape)
        samp.append((pts, th, ph))
    lines = ["ylm %d %d %d %d %d %d %d" % (s, l, m, c.numerator, c.denominator, sn.numerator, sn.denominator)
             for s in spins for (pts, _, _) in samp for (l, m) in keys for (c, sn) in pts]
    outs = ctx.run_driver("Driver/C20.lean", lines)
    k = 0
    Y = {}                                   # (s, sampling) -> {(l, m): model harmonic on the sampling}
    for s in spins:
        for i, (pts, th, ph) in enumerate(samp):
            Y[s, i] = {}
            for (l, m) in keys:
                vals = []
                for j in range(npt):
                    f = outs[k].split(" ")
                    k += 1
                    vals.append(math.sqrt(float(F(f[3])) / math.pi) * float(F(f[1])))
                Y[s, i][l, m] = np.array(vals).reshape(shape) * np.exp(1j * int(m) * ph)
    bad, calls = [], 0
    for s in spins:
        order = list(range(nsamp))
        ctx.rng.shuffle(order)
        order = order + [order[0]] + [ctx.rng.randrange(nsamp)]
        first = {}
        for i in order:
            pts, th, ph = samp[i]
            rs = np.random.default_rng(1000 * i + s + 7)     # same data whenever sampling i is revisited
            a = {kk: complex(rs.normal(), rs.normal()) for kk in keys}
            f = rs.normal(size=shape) + 1j * rs.normal(size=shape)
            w = rs.uniform(0.5, 1.5, size=shape)
            dph = 0.37
            rec = maths.sYlm_reconstruct(s, lmax, a, th, ph)
            co = maths.sYlm_coefficients(s, lmax, f, th, ph, w, dph)
            calls += 2
            rec_m = sum(a[kk] * Y[s, i][kk] for kk in keys)
            d1 = float(np.max(np.abs(rec - rec_m)))
            d2 = max(abs(co[kk] - np.sum(np.conj(Y[s, i][kk]) * f * w * dph)) for kk in keys)
            if d1 > 1e-11 * 40 or d2 > 1e-11 * 40:
                bad.append(("s=%d sampling %d of shape %s in call order %s" % (s, i, shape, order),
                            "reconstruct deviates from sum a_lm Y_lm(model) by %r, coefficients from "
                            "sum conj(Y) f w dphi by %r" % (d1, float(d2))))
            if i in first:
                if not (np.array_equal(first[i][0], rec) and all(first[i][1][kk] == co[kk] for kk in keys)):
                    bad.append(("s=%d sampling %d revisited (order %s)" % (s, i, order), "result differs from its first visit"))
            else:
                first[i] = (rec, co)
    ctx.cov["history_calls"] = calls
    ctx.cov["history_samplings_same_shape"] = nsamp
    ctx.obligation("correspondence: sYlm_reconstruct / sYlm_coefficients on %d samplings of ONE shape in one process, "
                   "any order, first revisited — each call equals the model sums at the angles passed (no hidden state)"
                   % nsamp, not bad, "; ".join("%s -> %s" % b for b in bad[:3]), kind="correspondence")
    return bad


def dyadic(rng, lo, hi, bits=4):
    return Fraction(rng.randint(lo * 2 ** bits, hi * 2 ** bits), 2 ** bits)


def bounds_case(rng, kind):
    nd = rng.randint(1, 3)
    grids, targets = [], []
    for _ in range(nd):
        g = sorted({dyadic(rng, -4, 4) for _ in range(rng.randint(2, 6))})
        while len(g) < 2:
            g = sorted(set(g) | {dyadic(rng, -4, 4)})
        grids.append(g)
    shape = [rng.randint(1, 3) for _ in range(rng.randint(1, 2))]
    npt = int(np.prod(shape))
    for g in grids:
        lo, hi = g[0], g[-1]
        t = []
        for _ in range(npt):
            r = rng.random()
            if r < 0.25:
                t.append(rng.choice([lo, hi]))                      # boundary
            else:
                t.append(lo + (hi - lo) * Fraction(rng.randint(0, 16), 16))
        targets.append(t)
    if kind == "outside":
        for _ in range(rng.randint(1, 2)):
            ax = rng.randrange(nd)
            eps = Fraction(1, 2 ** rng.choice([1, 5, 20, 40]))
            g = grids[ax]
            targets[ax][rng.randrange(npt)] = (g[0] - eps) if rng.random() < 0.5 else (g[-1] + eps)
    elif kind == "mismatch":
        if rng.random() < 0.5 and nd > 1:
            targets = targets[:-1]
        else:
            grids = grids[:-1] if nd > 1 else grids + [grids[0]]
    elif kind == "empty":
        ax = rng.randrange(nd)
        if rng.random() < 0.5:
            targets = [[] for _ in targets]
        else:
            grids[ax] = []
    return grids, targets, shape


def bounds_line(grids, targets):
    enc = lambda axes: ";".join((",".join("%d/%d" % (q.numerator, q.denominator) for q in ax) or "e") for ax in axes)
    return "bounds %s|%s" % (enc(grids), enc(targets))


def bounds_impl(grids, targets, shape):
    from aurel import numerical
    import re
    g = tuple(np.array([float(q) for q in ax]) for ax in grids)
    t = tuple(np.array([float(q) for q in ax]).reshape(shape if ax else (0,)) for ax in targets)
    val = np.zeros(tuple(len(ax) for ax in grids))
    try:
        numerical.interpolate(val, g, t)
        return "ok"
    except ValueError as ex:
        msg = str(ex)
        mm = re.search(r"Target points in dimension (\d+) are outside grid bounds", msg)
        if mm:
            return "oob %s" % mm.group(1)
        if "zero-size array" in msg:
            return "empty"
        if "zip()" in msg:
            return "mismatch"
        return "ValueError: " + msg[:80]
    except Exception as ex:  # noqa
        return "%s: %s" % (type(ex).__name__, str(ex)[:80])


def corr_bounds(ctx):
    n = ctx.budget(300, 2000)
    cases = []
    for i in range(n):
        kind = "inside" if i % 2 == 0 else ("outside" if i % 10 != 9 else ctx.rng.choice(["mismatch", "empty"]))
        cases.append((kind,) + bounds_case(ctx.rng, kind))
    lines = [bounds_line(g, t) for _, g, t, _ in cases]
    outs = ctx.run_driver("Driver/C20.lean", lines)
    bad, dist = [], {}
    for (kind, g, t, shape), line, out in zip(cases, lines, outs):
        r = bounds_impl(g, t, shape)
        m = out.split(" ")[0] if out.startswith("empty") else out
        dist[r.split(" ")[0]] = dist.get(r.split(" ")[0], 0) + 1
        if r != m:
            bad.append((line, "code %s, model %s" % (r, out)))
    ctx.cov["bounds_cases"] = len(cases)
    ctx.cov["bounds_distribution"] = dist
    ctx.sample({"line": lines[1][:200], "model": outs[1]})
    ctx.obligation("correspondence: accept/refuse decision of numerical.interpolate vs Model/Harm.boundsCheck "
                   "(%d cases incl. boundary points, exact)" % len(cases),
                   not bad, "; ".join("%s -> %s" % b for b in bad[:4]), kind="correspondence")
    return bad


# --------------------------------------------------------------------------
# exact correspondence: linear RegularGridInterpolator vs Model/Interp.lean
#
# All inputs are dyadic rationals with few bits, grid spacings are powers of
# two, so every float operation of find_indices / _evaluate_linear
# ((x - g[i]) / (g[i+1] - g[i]), 1 - t, the three weight products, value *
# weight, the 8 additions) is exact in binary64 (worst case < 30 significant
# bits) and float(result) must equal the model's rational EXACTLY.

INTERP_SPACINGS = (Fraction(1, 4), Fraction(1, 2), Fraction(1), Fraction(2))


def interp_q(q):
    return "%d/%d" % (q.numerator, q.denominator)


def interp_grid(rng, n):
    """strictly ascending, non-uniform, spacings powers of two, nodes multiples of 1/4"""
    g = [Fraction(rng.randint(-16, 16), 4)]
    for _ in range(n - 1):
        g.append(g[-1] + rng.choice(INTERP_SPACINGS))
    return g


def interp_coord(rng, g, cell, kind):
    """one target coordinate inside the grid axis `g`.
    kind: 'node' (node `cell` or its right neighbour), 'first', 'last', 'in' (inside cell `cell`,
    multiples of 1/16 of the spacing, end points excluded)"""
    if kind == "first":
        return g[0]
    if kind == "last":
        return g[-1]
    if kind == "node":
        return g[cell + rng.randint(0, 1)]
    return g[cell] + (g[cell + 1] - g[cell]) * Fraction(rng.randint(1, 15), 16)


def interp_case(rng, full_cells):
    """one grid + nodal values + a batch of targets inside the grid.
    Returns (grids, vals(flat C-order), targets [(x, y, z, tag)])"""
    ns = [rng.randint(2, 4) for _ in range(3)]
    grids = [interp_grid(rng, n) for n in ns]
    vals = [Fraction(rng.randint(-512, 512), 8) for _ in range(ns[0] * ns[1] * ns[2])]
    cells = [(a, b, c) for a in range(ns[0] - 1) for b in range(ns[1] - 1) for c in range(ns[2] - 1)]
    if not full_cells and len(cells) > 6:
        cells = rng.sample(cells, 6)
    targets = []
    for cell in cells:                                  # strictly inside every cell
        targets.append(tuple(interp_coord(rng, g, c, "in") for g, c in zip(grids, cell)) + ("cell",))
    for _ in range(3):                                  # exactly at a node
        cell = rng.choice(cells)
        targets.append(tuple(interp_coord(rng, g, c, "node") for g, c in zip(grids, cell)) + ("node",))
    for _ in range(3):                                  # on a cell face / edge: some coordinates at nodes
        cell = rng.choice(cells)
        kinds = [rng.choice(["node", "in"]) for _ in range(3)]
        if "node" not in kinds:
            kinds[rng.randrange(3)] = "node"
        if "in" not in kinds:
            kinds[rng.randrange(3)] = "in"
        targets.append(tuple(interp_coord(rng, g, c, k) for g, c, k in zip(grids, cell, kinds)) + ("face",))
    for _ in range(3):                                  # first / last node of some axes (grid boundary)
        cell = rng.choice(cells)
        kinds = [rng.choice(["first", "last", "in", "node"]) for _ in range(3)]
        if not ({"first", "last"} & set(kinds)):
            kinds[rng.randrange(3)] = rng.choice(["first", "last"])
        targets.append(tuple(interp_coord(rng, g, c, k) for g, c, k in zip(grids, cell, kinds)) + ("boundary",))
    corner = [rng.choice(["first", "last"]) for _ in range(3)]    # a corner of the grid
    targets.append(tuple(interp_coord(rng, g, 0, k) for g, k in zip(grids, corner)) + ("corner",))
    rng.shuffle(targets)
    return grids, vals, targets


def interp_outside_coord(rng, g):
    """a coordinate outside (or inside) the axis, at most 4 spacings away, multiples of 1/16 spacing"""
    r = rng.random()
    if r < 0.4:
        return g[0] - (g[1] - g[0]) * Fraction(rng.randint(1, 64), 16)
    if r < 0.8:
        return g[-1] + (g[-1] - g[-2]) * Fraction(rng.randint(1, 64), 16)
    c = rng.randrange(len(g) - 1)
    return g[c] + (g[c + 1] - g[c]) * Fraction(rng.randint(0, 16), 16)


def interp_exact(x):
    """a float as an exact 'num/den' string (no float comparison anywhere)"""
    x = float(x)
    if x != x or x in (float("inf"), float("-inf")):
        return repr(x)
    return interp_q(Fraction(x))


def corr_interp(ctx):
    """Model/Interp.lean vs the real code, exactly:
      1. aurel.numerical.interpolate(method='linear') at targets inside the grid (every cell, nodes, faces,
         first/last nodes, corners) == Interp.interp3
      2. scipy's RegularGridInterpolator constructed exactly as aurel constructs it
         (bounds_error=False, fill_value=None), at targets OUTSIDE the grid (aurel.interpolate refuses these;
         theorem interp3_trilinear speaks about them) == Interp.interp3
      3. scipy's compiled find_indices (index, norm_distance; batches, so with the search hint carried over)
         == Interp.findInterval / normDist
    """
    import scipy.interpolate
    from aurel import numerical
    rng = ctx.rng
    npoints = ctx.budget(200, 1000)

    # ---- 1. the real aurel function, targets inside the grid
    cases, lines, tags = [], [], {}
    while len(lines) < npoints:
        grids, vals, targets = interp_case(rng, True)
        cases.append((grids, vals, targets, len(lines)))
        head = "interp3 %s|%s|" % ("|".join(",".join(interp_q(q) for q in g) for g in grids),
                                   ",".join(interp_q(q) for q in vals))
        for (x, y, z, tag) in targets:
            lines.append(head + "%s %s %s" % (interp_q(x), interp_q(y), interp_q(z)))
            tags[tag] = tags.get(tag, 0) + 1
    outs = ctx.run_driver("Driver/C20Interp.lean", lines)
    bad, shapes = [], {}
    for grids, vals, targets, off in cases:
        g = tuple(np.array([float(q) for q in ax]) for ax in grids)
        val = np.array([float(q) for q in vals]).reshape(tuple(len(ax) for ax in grids))
        npt = len(targets)
        shape = (npt,) if (npt % 2 or rng.random() < 0.5) else (2, npt // 2)
        shapes[len(shape)] = shapes.get(len(shape), 0) + 1
        t = tuple(np.array([float(p[d]) for p in targets]).reshape(shape) for d in range(3))
        try:
            res = numerical.interpolate(val, g, t, method="linear")
            code = [interp_exact(v) for v in np.asarray(res).reshape(-1)] if res.shape == shape else \
                ["shape %s" % (res.shape,)] * npt
        except Exception as ex:  # noqa
            code = ["%s: %s" % (type(ex).__name__, str(ex)[:80])] * npt
        for n, c in enumerate(code):
            out = outs[off + n] if off + n < len(outs) else "missing"
            model = interp_q(F(out[3:])) if out.startswith("ok ") else out
            if c != model:
                bad.append((lines[off + n][:300], "code %s, model %s" % (c, out)))
    ctx.cov["interp_points"] = len(lines)
    ctx.cov["interp_grids"] = len(cases)
    ctx.cov["interp_target_kinds"] = tags
    ctx.cov["interp_target_array_ndim"] = shapes
    ctx.sample({"line": lines[0][:300], "model": outs[0] if outs else None})
    ctx.obligation("correspondence: numerical.interpolate(method='linear') == Model/Interp.interp3 EXACTLY "
                   "(%d targets on %d non-uniform dyadic grids: every cell, nodes, faces, first/last nodes, corners)"
                   % (len(lines), len(cases)), not bad, "; ".join("%s -> %s" % b for b in bad[:4]),
                   kind="correspondence")

    # ---- 2. outside the grid: the interpolator object aurel builds (interpolate itself refuses such targets)
    nout = ctx.budget(60, 300)
    lines2, code2 = [], []
    while len(lines2) < nout:
        grids, vals, _ = interp_case(rng, False)
        g = tuple(np.array([float(q) for q in ax]) for ax in grids)
        val = np.array([float(q) for q in vals]).reshape(tuple(len(ax) for ax in grids))
        pts = [tuple(interp_outside_coord(rng, ax) for ax in grids) for _ in range(6)]
        head = "interp3 %s|%s|" % ("|".join(",".join(interp_q(q) for q in ax) for ax in grids),
                                   ",".join(interp_q(q) for q in vals))
        lines2 += [head + " ".join(interp_q(q) for q in p) for p in pts]
        try:
            it = scipy.interpolate.RegularGridInterpolator(g, val, method="linear", bounds_error=False,
                                                           fill_value=None)
            code2 += [interp_exact(v) for v in it(np.array([[float(q) for q in p] for p in pts]))]
        except Exception as ex:  # noqa
            code2 += ["%s: %s" % (type(ex).__name__, str(ex)[:80])] * len(pts)
    outs2 = ctx.run_driver("Driver/C20Interp.lean", lines2)
    bad2 = []
    for line, c, out in zip(lines2, code2, outs2 + ["missing"] * (len(lines2) - len(outs2))):
        model = interp_q(F(out[3:])) if out.startswith("ok ") else out
        if c != model:
            bad2.append((line[:300], "code %s, model %s" % (c, out)))
    ctx.cov["interp_outside_points"] = len(lines2)
    ctx.obligation("correspondence: RegularGridInterpolator(method='linear', bounds_error=False, fill_value=None) "
                   "at targets outside the grid (linear extrapolation) == Model/Interp.interp3 EXACTLY (%d targets)"
                   % len(lines2), not bad2, "; ".join("%s -> %s" % b for b in bad2[:4]), kind="correspondence")

    # ---- 3. the compiled interval search (batches: the hint of the previous point is carried over)
    bad3, lines3, code3 = [], [], []
    try:
        from scipy.interpolate._rgi_cython import find_indices
    except Exception as ex:  # noqa
        find_indices = None
        ctx.cov["interp_find_indices"] = "not importable: %s" % type(ex).__name__
    if find_indices is not None:
        nfind = ctx.budget(150, 600)
        while len(lines3) < nfind:
            ax = interp_grid(rng, rng.randint(2, 7))
            xs = [interp_outside_coord(rng, ax) for _ in range(8)] + [ax[0], ax[-1], rng.choice(ax)]
            rng.shuffle(xs)
            idx, nd = find_indices((np.array([float(q) for q in ax]),), np.array([[float(q) for q in xs]]))
            for x, i, t in zip(xs, idx[0], nd[0]):
                lines3.append("find %s|%s" % (",".join(interp_q(q) for q in ax), interp_q(x)))
                code3.append("ok %d %s" % (int(i), interp_exact(t)))
        outs3 = ctx.run_driver("Driver/C20Interp.lean", lines3)
        for line, c, out in zip(lines3, code3, outs3 + ["missing"] * (len(lines3) - len(outs3))):
            if c != out:
                bad3.append((line[:200], "code %s, model %s" % (c, out)))
        ctx.cov["interp_find_points"] = len(lines3)
        ctx.obligation("correspondence: scipy find_indices (index, norm_distance; below/inside/above the axis, at "
                       "nodes, batches with carried search hint) == Model/Interp.findInterval/normDist EXACTLY "
                       "(%d points)" % len(lines3), not bad3, "; ".join("%s -> %s" % b for b in bad3[:4]),
                       kind="correspondence")
    return bad + bad2 + bad3


# --------------------------------------------------------------------------
# sentinel / search on the REAL code

def s_orthonormal(ctx, lmax):
    """Gauss-Legendre(cos theta) x trapezoid(phi): exact for every product of two
    harmonics of degree <= lmax."""
    from aurel import maths
    found = 0
    x, w = np.polynomial.legendre.leggauss(lmax + 3)
    th = np.arccos(x)
    nph = 2 * lmax + 3
    ph = 2 * np.pi * np.arange(nph) / nph
    TH, PH = np.meshgrid(th, ph, indexing="ij")
    W = (w[:, None] * (2 * np.pi / nph) * np.ones_like(TH)).ravel()
    for s in SPINS:
        keys = [(l, m) for l in range(lmax + 1) for m in range(-l, l + 1)]
        A = np.array([(np.asarray(maths.sYlm(s, l, m, TH, PH)) * np.ones_like(TH, dtype=complex)).ravel() for l, m in keys])
        G = (A.conj() * W) @ A.T
        E = np.array([[1.0 if (a == b and a[0] >= abs(s)) else 0.0 for b in keys] for a in keys])
        D = np.abs(G - E)
        ctx.count("quadrature_pairs", len(keys) ** 2)
        if D.max() > 1e-10:
            i, j = np.unravel_index(int(np.argmax(D)), D.shape)
            found += ctx.violation(
                "<%dY_%s, %dY_%s> = %r by Gauss-Legendre x trapezoid quadrature, expected %r"
                % (s, keys[i], s, keys[j], complex(G[i, j]), float(E[i, j])),
                {"kind": "input", "check": "orthonormal", "s": s, "lmax": lmax, "a": list(keys[i]), "b": list(keys[j]),
                 "observed": [float(G[i, j].real), float(G[i, j].imag)], "expected": float(E[i, j])},
                {"site": "sYlm", "check": "orthonormal", "s": s})
    return found


def s_oracle_values(ctx, lmax, npts):
    """sYlm against the independent Wigner-d (Jacobi) implementation, the
    ordinary scipy harmonics at s = 0 (phase (-1)^m), and the conjugation rule."""
    from aurel import maths
    found = 0
    rs = np.random.default_rng(ctx.rng.getrandbits(32))
    th = np.concatenate([rs.uniform(0.02, np.pi - 0.02, npts), [0.0, np.pi]])
    ph = rs.uniform(0, 2 * np.pi, npts + 2)
    for s in SPINS:
        for l in range(0, lmax + 1):
            for m in range(-l, l + 1):
                if found >= 3:          # enough concrete inputs; do not flood replays/
                    return found
                v = np.asarray(maths.sYlm(s, l, m, th, ph)) * np.ones(npts + 2, dtype=complex)
                o = oracle_sYlm(s, l, m, th, ph)
                scale = math.sqrt((2 * l + 1) / (4 * math.pi)) * 10
                ctx.count("oracle_values", npts + 2)
                if np.max(np.abs(v - o)) > 1e-11 * scale:
                    i = int(np.argmax(np.abs(v - o)))
                    found += ctx.violation(
                        "sYlm(%d,%d,%d, theta=%r, phi=%r) = %r, Wigner-d oracle with the documented phase %r"
                        % (s, l, m, float(th[i]), float(ph[i]), complex(v[i]), complex(o[i])),
                        {"kind": "input", "check": "oracle_value", "s": s, "l": l, "m": m, "theta": float(th[i]),
                         "phi": float(ph[i]), "observed": [v[i].real, v[i].imag], "expected": [o[i].real, o[i].imag]},
                        {"site": "sYlm", "check": "oracle_value", "s": s})
                if s == 0:
                    y = (-1) ** m * scipy_Ylm(l, m, th, ph)
                    if np.max(np.abs(v - y)) > 1e-11 * scale:
                        i = int(np.argmax(np.abs(v - y)))
                        found += ctx.violation(
                            "sYlm(0,%d,%d) = %r but (-1)^m * scipy Y_lm = %r at theta=%r phi=%r"
                            % (l, m, complex(v[i]), complex(y[i]), float(th[i]), float(ph[i])),
                            {"kind": "input", "check": "spin0", "s": 0, "l": l, "m": m, "theta": float(th[i]), "phi": float(ph[i]),
                             "observed": [v[i].real, v[i].imag], "expected": [y[i].real, y[i].imag]},
                            {"site": "sYlm", "check": "spin0"})
                c = (-1) ** (s + m) * np.asarray(maths.sYlm(-s, l, -m, th, ph)) * np.ones(npts + 2, dtype=complex)
                if np.max(np.abs(np.conj(v) - c)) > 1e-11 * scale:
                    i = int(np.argmax(np.abs(np.conj(v) - c)))
                    found += ctx.violation(
                        "conj sYlm(%d,%d,%d) != (-1)^(s+m) sYlm(%d,%d,%d) at theta=%r" % (s, l, m, -s, l, -m, float(th[i])),
                        {"kind": "input", "check": "conj", "s": s, "l": l, "m": m, "theta": float(th[i]), "phi": float(ph[i])},
                        {"site": "sYlm", "check": "conj", "s": s})
    return found


def roundtrip_error(s, lband, ntheta, seed):
    """max |a' - a| after sYlm_reconstruct -> sYlm_coefficients on the code's grid,
    and the deviation of both functions from direct sums."""
    from aurel import maths
    rs = np.random.default_rng(seed)
    TH, PH, dth, dph = code_grid(ntheta)
    a = {}
    for l in range(lband + 1):
        for m in range(-l, l + 1):
            a[l, m] = complex(rs.normal(), rs.normal()) if l >= abs(s) else 0.0
    f = maths.sYlm_reconstruct(s, lband, a, TH, PH)
    w = np.sin(TH) * dth
    b = maths.sYlm_coefficients(s, lband, f, TH, PH, w, dph)
    # structure: both functions against direct sums over the (independent) oracle harmonics
    fdir = sum(a[k] * oracle_sYlm(s, k[0], k[1], TH, PH) for k in a)
    sdev = float(np.max(np.abs(f - fdir)))
    cdev = 0.0
    for k in a:
        direct = np.sum(np.conj(oracle_sYlm(s, k[0], k[1], TH, PH)) * f * w * dph)
        cdev = max(cdev, abs(b[k] - direct))
    err = float(max(abs(b[k] - a[k]) for k in a)) if list(b.keys()) == list(a.keys()) else float("inf")
    spurious = float(max([abs(b[k]) for k in a if k[0] < abs(s)] or [0.0]))
    return err, sdev, float(cdev), spurious, list(b.keys()) == list(a.keys())


def s_roundtrip(ctx, lband):
    found = 0
    for s in (-2, 0, 1) if ctx.tier == "quick" else SPINS:
        seed = ctx.rng.getrandbits(32)
        res = {n: roundtrip_error(s, lband, n, seed) for n in (16, 32)}
        ctx.count("roundtrip_runs", 2)
        e16, e32 = res[16][0], res[32][0]
        ctx.cov["roundtrip_err_s%d" % s] = [e16, e32]
        struct = max(res[16][1], res[16][2], res[32][1], res[32][2], res[16][3], res[32][3])
        if struct > 1e-10 or not (res[16][4] and res[32][4]):
            found += ctx.violation(
                "sYlm_reconstruct / sYlm_coefficients (s=%d, lmax=%d) deviate from the direct sums "
                "sum_lm a_lm Y_lm, sum conj(Y) f w dphi by %r (key order ok: %s)" % (s, lband, struct, res[16][4]),
                {"kind": "input", "check": "coeff_sum", "s": s, "lband": lband, "seed": seed, "observed": struct},
                {"site": "sYlm_coefficients", "check": "coeff_sum", "s": s})
        if not (e32 < 0.6 * e16 and e32 < 0.05):
            # generous band; confirm at a second pair of resolutions before reporting
            r2 = {n: roundtrip_error(s, lband, n, seed)[0] for n in (24, 48)}
            if not (r2[48] < 0.6 * r2[24] and r2[48] < 0.03):
                found += ctx.violation(
                    "decomposition of a band-limited synthesis (s=%d, l<=%d) on the Psi4_lm grid: error %r (Ntheta 16), "
                    "%r (32), %r (24), %r (48) does not decrease with resolution" % (s, lband, e16, e32, r2[24], r2[48]),
                    {"kind": "input", "check": "roundtrip", "s": s, "lband": lband, "seed": seed,
                     "observed": [e16, e32, r2[24], r2[48]]},
                    {"site": "sYlm_coefficients", "check": "roundtrip", "s": s})
    return found


def same_shape_samplings(ntheta, seed):
    """Three angular samplings of the SAME shape (ntheta+1, 2 ntheta+1): the
    Psi4_lm midpoint grid; Gauss-Legendre nodes x uniform phi with an offset (an
    exact quadrature for band limit <= ntheta); a randomly jittered grid."""
    rs = np.random.default_rng(seed)
    TH, PH, dth, dph = code_grid(ntheta)
    out = {"midpoint": (TH, PH, np.sin(TH) * dth, dph)}
    x, w = np.polynomial.legendre.leggauss(ntheta + 1)
    nphi = 2 * ntheta
    ph = 2 * np.pi * (np.arange(nphi + 1) + rs.uniform(0.05, 0.95)) / (nphi + 1)
    T2, P2 = np.meshgrid(np.arccos(x)[::-1], ph, indexing="ij")
    out["gauss-legendre"] = (T2, P2, w[::-1][:, None] * np.ones_like(T2), 2 * np.pi / (nphi + 1))
    T3 = np.clip(TH + dth * rs.uniform(-0.3, 0.3, TH.shape), 1e-3, np.pi - 1e-3)
    P3 = PH + dph * rs.uniform(-0.3, 0.3, PH.shape)
    out["jittered"] = (T3, P3, np.sin(T3) * dth, dph)
    return out


def history_run(s, lband, ntheta, seed, order):
    """Visit the samplings in `order` in this process; returns the list of
    (position, name, what, deviation) that fail.  Oracle: Wigner-d/Jacobi
    harmonics at the angles actually passed (never maths.sYlm)."""
    from aurel import maths
    S = same_shape_samplings(ntheta, seed)
    keys = [(l, m) for l in range(lband + 1) for m in range(-l, l + 1)]
    rs = np.random.default_rng(seed + 1)
    a = {k: (complex(rs.normal(), rs.normal()) if k[0] >= abs(s) else 0.0) for k in keys}
    g = rs.normal(size=S["midpoint"][0].shape) + 1j * rs.normal(size=S["midpoint"][0].shape)
    fails, first = [], {}
    for pos, name in enumerate(order):
        TH, PH, w, dph = S[name]
        Y = {k: oracle_sYlm(s, k[0], k[1], TH, PH) for k in keys}
        rec = maths.sYlm_reconstruct(s, lband, a, TH, PH)
        d = float(np.max(np.abs(rec - sum(a[k] * Y[k] for k in keys))))
        if d > 1e-10:
            fails.append((pos, name, "sYlm_reconstruct vs sum a_lm Y_lm(angles passed)", d))
        # synthesis and decomposition are linear: a field 1e-10 or 1e+9 times as large (Psi4 at a large radius, code
        # units) is handled like the O(1) one (absolute thresholds such as np.isclose(x, 0) must not drop modes)
        for fac in (1e-10, 1e9):
            rs_ = maths.sYlm_reconstruct(s, lband, {k: fac * a[k] for k in keys}, TH, PH)
            d = float(np.max(np.abs(rs_ / fac - rec)))
            if d > 1e-10:
                fails.append((pos, name, "sYlm_reconstruct(%g * a) / %g vs sYlm_reconstruct(a)" % (fac, fac), d))
            cs_ = maths.sYlm_coefficients(s, lband, fac * g, TH, PH, w, dph)
            d = float(max(abs(cs_[k] / fac - np.sum(np.conj(Y[k]) * g * w * dph)) for k in keys))
            if d > 1e-10 * float(np.sum(np.abs(w)) * dph):
                fails.append((pos, name, "sYlm_coefficients(%g * f) / %g vs the direct sum" % (fac, fac), d))
        co = maths.sYlm_coefficients(s, lband, g, TH, PH, w, dph)
        d = float(max(abs(co[k] - np.sum(np.conj(Y[k]) * g * w * dph)) for k in keys))
        if d > 1e-10 * float(np.sum(np.abs(w)) * dph):
            fails.append((pos, name, "sYlm_coefficients vs sum conj(Y_lm(angles passed)) f w dphi", d))
        # the same numbers stored with a REAL dtype (a real-valued spin-weighted field, e.g. the real part of Psi4)
        gre = np.ascontiguousarray(g.real)
        cor = maths.sYlm_coefficients(s, lband, gre, TH, PH, w, dph)
        d = float(max(abs(cor[k] - np.sum(np.conj(Y[k]) * gre * w * dph)) for k in keys))
        if d > 1e-10 * float(np.sum(np.abs(w)) * dph):
            fails.append((pos, name, "sYlm_coefficients of a real-dtype field vs sum conj(Y_lm) f w dphi", d))
        if name == "gauss-legendre":
            # exact quadrature: decomposition inverts synthesis, Gram matrix = identity, to round-off
            back = maths.sYlm_coefficients(s, lband, rec, TH, PH, w, dph)
            d = float(max(abs(back[k] - a[k]) for k in keys))
            if d > 1e-10:
                fails.append((pos, name, "band-limited synthesis -> decomposition on the Gauss-Legendre grid", d))
            kk = max((k for k in keys if k[0] >= abs(s)), key=lambda k: (k[0], -abs(k[1])))
            gr = maths.sYlm_coefficients(s, lband, Y[kk], TH, PH, w, dph)
            d = float(max(abs(gr[k] - (1.0 if k == kk else 0.0)) for k in keys))
            if d > 1e-10:
                fails.append((pos, name, "discrete Gram row of mode %s on the Gauss-Legendre grid" % (kk,), d))
        if name in first:
            if not (np.array_equal(first[name][0], rec) and all(first[name][1][k] == co[k] for k in keys)):
                fails.append((pos, name, "revisited sampling gives a different result than on its first visit", float("nan")))
        else:
            first[name] = (rec, co)
    return fails


def s_history(ctx):
    """No hidden state: different samplings of identical array shape in one
    process, in a seed-dependent order, the first one again at the end."""
    found = 0
    for s in (-2, ctx.rng.choice([-1, 0, 1, 2])):
        ntheta = ctx.rng.choice([6, 8, 10]) if ctx.tier == "quick" else ctx.rng.choice([8, 12, 16])
        lband = min(ntheta, ctx.budget(4, 6))
        seed = ctx.rng.getrandbits(31)
        order = ["midpoint", "gauss-legendre", "jittered"]
        ctx.rng.shuffle(order)
        order = order + [order[0], ctx.rng.choice(order[1:])]
        fails = history_run(s, lband, ntheta, seed, order)
        ctx.count("history_sentinel_calls", 2 * len(order))
        if fails:
            pos, name, what, d = fails[0]
            found += ctx.violation(
                "in one process, samplings %s of shape (%d, %d), s=%d, lmax=%d: call %d (%s): %s deviates by %r (%d failing checks)"
                % (order, ntheta + 1, 2 * ntheta + 1, s, lband, pos, name, what, d, len(fails)),
                {"kind": "history", "check": "history", "s": s, "lband": lband, "ntheta": ntheta, "seed": seed, "order": order,
                 "observed": [[p_, n_, w_, d_] for p_, n_, w_, d_ in fails[:6]]},
                {"site": "sYlm_coefficients", "check": "history", "s": s})
    return found


def s_interpolate(ctx, methods):
    """RegularGridInterpolator through numerical.interpolate: exact at the nodes
    (all methods), exact on trilinear fields (all but nearest), ValueError
    outside.  Deviations of the size of scipy's iterative spline solver
    tolerance (cubic / quintic: default gcrotmk, atol 1e-6) are fingerprinted
    `solver-tolerance`, anything bigger `large`."""
    from aurel import numerical
    found = 0
    rs = np.random.default_rng(ctx.rng.getrandbits(32))

    def report(what, check, method, dev, exact_tol, scale):
        if dev <= exact_tol * scale:
            return 0
        size = "solver-tolerance" if (method in ("cubic", "quintic") and dev <= 2e-3 * scale) else "large"
        return ctx.violation("interpolate(method=%s) %s by %r" % (method, what, dev),
                             {"kind": "input", "check": check, "method": method, "observed": dev},
                             {"site": "interpolate", "check": check, "method": method, "size": size})
    for method in methods:
        npt = {"linear": 5, "nearest": 5, "slinear": 5, "cubic": 6, "quintic": 8, "pchip": 6}[method]
        grids = tuple(np.sort(rs.uniform(-2, 2, npt + i)) for i in range(3))
        if method in ("cubic", "quintic") or min(np.min(np.diff(g)) for g in grids) < 0.08:
            # aurel's own grids are uniform; the iterative spline solver of scipy is
            # badly conditioned on irregular ones, which is not the property's concern
            grids = tuple(np.linspace(-2 + 0.1 * i, 2 - 0.05 * i, npt + i) for i in range(3))
        X, Y, Z = np.meshgrid(*grids, indexing="ij")
        val = rs.normal(size=X.shape)
        ctx.count("interp_checks")
        # (a) exact at the nodes, boundary nodes included
        try:
            got = numerical.interpolate(val, grids, (X, Y, Z), method=method)
            dev = float(np.max(np.abs(got - val))) if got.shape == X.shape else float("inf")
        except Exception as ex:  # noqa
            dev = float("inf")
            ctx.notes.append("interpolate(method=%s) at nodes raised %r" % (method, ex))
        found += report("at the grid nodes deviates from the data", "interp_node", method, dev, 1e-12,
                        max(1.0, float(np.max(np.abs(val)))))
        # (b) exact on trilinear fields
        if method != "nearest":
            co = rs.normal(size=8)
            tri = lambda x, y, z: (co[0] + co[1] * x + co[2] * y + co[3] * z + co[4] * x * y + co[5] * x * z
                                   + co[6] * y * z + co[7] * x * y * z)
            tg = tuple(rs.uniform(g[0], g[-1], (4, 7)) for g in grids)
            try:
                got = numerical.interpolate(tri(X, Y, Z), grids, tg, method=method)
                dev = float(np.max(np.abs(got - tri(*tg)))) if got.shape == (4, 7) else float("inf")
            except Exception as ex:  # noqa
                dev = float("inf")
                ctx.notes.append("interpolate(method=%s) on a trilinear field raised %r" % (method, ex))
            found += report("of a trilinear field is off", "interp_trilinear", method, dev, 1e-11,
                            max(1.0, float(np.max(np.abs(tri(X, Y, Z))))))
        # (c) refuses a point outside on any axis, on either side; accepts the corners
        for ax in range(3):
            for side in (0, 1):
                tg = [np.array([0.5 * (g[0] + g[-1])]) for g in grids]
                tg[ax] = np.array([grids[ax][0] - 1e-9]) if side == 0 else np.array([grids[ax][-1] + 1e-9])
                try:
                    r = numerical.interpolate(val, grids, tuple(tg), method=method)
                    found += ctx.violation("interpolate(method=%s) returned %r for a target outside the grid on axis %d"
                                           % (method, r, ax),
                                           {"kind": "input", "check": "interp_outside", "method": method, "axis": ax, "side": side},
                                           {"site": "interpolate", "check": "interp_outside", "method": method})
                except ValueError:
                    pass
    return found


def psi4_mode_error(n, l0, m0, lmax, radius, center, amp, method="linear"):
    """Inject amp * (-2)Y_{l0 m0} (independent oracle) * (r/R)^2 as Weyl_Psi4 and
    return max over modes of |rel['Psi4_lm'] - expected|."""
    import aurel
    L = 1.0
    d = 2 * L / (n - 1)
    param = {"Nx": n, "Ny": n, "Nz": n, "xmin": -L, "ymin": -L, "zmin": -L, "dx": d, "dy": d, "dz": d}
    fd = aurel.FiniteDifference(param, verbose=False)
    rel = aurel.AurelCore(fd, verbose=False, lmax=lmax, extract_radii=[radius], interp_method=method, center=center)
    x, y, z = fd.x - center[0], fd.y - center[1], fd.z - center[2]
    r = np.sqrt(x * x + y * y + z * z)
    r = np.where(r == 0, 1e-30, r)
    th = np.arccos(np.clip(z / r, -1, 1))
    ph = np.arctan2(y, x)
    f = amp * oracle_sYlm(-2, l0, m0, th, ph) * (r / radius) ** 2
    rel.data["Weyl_Psi4r"] = np.real(f).copy()
    rel.data["Weyl_Psi4i"] = np.imag(f).copy()
    grid0 = [np.array(getattr(fd, k), copy=True) for k in ("xarray", "yarray", "zarray", "x", "y", "z")]
    out = rel["Psi4_lm"]
    if list(out.keys()) != [radius]:
        return float("inf"), {}
    a = out[radius]
    err = max(abs(a[k] - (amp if k == (l0, m0) else 0)) for k in a)
    # a second snapshot on the SAME grid object (what over_time does: one FiniteDifference, one AurelCore per step):
    # the extraction may not have touched the grid, and must return the same modes again
    for k, g0 in zip(("xarray", "yarray", "zarray", "x", "y", "z"), grid0):
        if not np.array_equal(getattr(fd, k), g0):
            return float("inf"), {"grid-modified": k}
    rel2 = aurel.AurelCore(fd, verbose=False, lmax=lmax, extract_radii=[radius], interp_method=method, center=center)
    rel2.data["Weyl_Psi4r"] = np.real(f).copy()
    rel2.data["Weyl_Psi4i"] = np.imag(f).copy()
    try:
        b = rel2["Psi4_lm"][radius]
        err = max(err, max(abs(b[k] - a[k]) for k in a) * 1e6 if max(abs(b[k] - a[k]) for k in a) > 1e-13 else err)
    except Exception:  # noqa
        return float("inf"), {"second-extraction-raised": True}
    return float(err), a


def s_psi4(ctx, modes):
    found = 0
    for (l0, m0, center) in modes:
        amp = complex(round(ctx.rng.uniform(0.2, 0.9), 2), round(ctx.rng.uniform(-0.9, -0.2), 2))
        lmax, radius = max(l0, 3), 0.6
        e = {n: psi4_mode_error(n, l0, m0, lmax, radius, center, amp)[0] for n in (12, 24)}
        ctx.count("psi4_runs", 2)
        ctx.cov["psi4_err_l%d_m%d_c%s" % (l0, m0, "0" if center == (0.0, 0.0, 0.0) else "off")] = [e[12], e[24]]
        if not (e[24] < 0.7 * e[12] and e[24] < 0.1 * abs(amp)):
            e2 = {n: psi4_mode_error(n, l0, m0, lmax, radius, center, amp)[0] for n in (16, 32)}
            if not (e2[32] < 0.7 * e2[16] and e2[32] < 0.08 * abs(amp)):
                found += ctx.violation(
                    "rel['Psi4_lm'] on an injected pure mode (l,m)=(%d,%d) amplitude %r: error %r (N=12), %r (24), %r (16), %r (32)"
                    % (l0, m0, amp, e[12], e[24], e2[16], e2[32]),
                    {"kind": "input", "check": "psi4_mode", "l": l0, "m": m0, "center": list(center), "amp": [amp.real, amp.imag],
                     "observed": [e[12], e[24], e2[16], e2[32]]},
                    {"site": "Psi4_lm", "check": "psi4_mode"})
    if ctx.tier == "thorough":
        l0, m0 = 2, 2
        amp = 0.5 - 0.25j
        e = {n: psi4_mode_error(n, l0, m0, 4, 0.6, (0.0, 0.0, 0.0), amp)[0] for n in (12, 24, 48)}
        ctx.cov["psi4_err_three_resolutions"] = [e[12], e[24], e[48]]
        if not (e[48] < e[24] < e[12]):
            found += ctx.violation("Psi4_lm pure-mode error not decreasing over N = 12, 24, 48: %r" % (e,),
                                   {"kind": "input", "check": "psi4_mode", "l": l0, "m": m0, "center": [0.0, 0.0, 0.0],
                                    "amp": [amp.real, amp.imag], "observed": [e[12], e[24], e[48]]},
                                   {"site": "Psi4_lm", "check": "psi4_mode"})
    return found


def s_interp_bound(ctx, ncases):
    """The PROVEN bound of Props/C20d (T26) on the real code: for a field with known
    bounds Mx, My, Mz of its pure second partials, sampled on a strictly ascending
    (uniform or irregular) grid with largest cell widths hx, hy, hz,
    |numerical.interpolate(method='linear') - f| <= (hx^2 Mx + hy^2 My + hz^2 Mz)/8
    at every target inside the grid.  The constant 1/8 is sharp (f = x^2 at cell
    midpoints), so e.g. a nearest-neighbour or shifted-cell interpolation fails."""
    from aurel import numerical
    found = 0
    rs = np.random.default_rng(ctx.rng.getrandbits(32))
    for case in range(ncases):
        uniform = case % 2 == 0
        if uniform:
            grids = tuple(np.linspace(-1.0 - 0.1 * i, 1.0 + 0.05 * i, int(rs.integers(5, 12))) for i in range(3))
        else:
            grids = tuple(np.sort(np.concatenate([[-1.0, 1.0], rs.uniform(-1, 1, int(rs.integers(3, 9)))])) for _ in range(3))
            if min(np.min(np.diff(g)) for g in grids) < 1e-3:
                continue
        h = [float(np.max(np.diff(g))) for g in grids]
        X, Y, Z = np.meshgrid(*grids, indexing="ij")
        kind = case % 3
        if kind == 0:      # plane wave + mixed term (mixed partials must not matter)
            k = rs.uniform(-3, 3, 3)
            ph0, c = rs.uniform(0, 6), rs.uniform(-5, 5)
            f = lambda x, y, z: np.sin(k[0] * x + k[1] * y + k[2] * z + ph0) + c * x * y * z  # noqa
            M = [k[0] ** 2, k[1] ** 2, k[2] ** 2]
        elif kind == 1:    # the sharp case: a pure quadratic
            q = rs.uniform(-2, 2, 3)
            f = lambda x, y, z: q[0] * x * x + q[1] * y * y + q[2] * z * z + x * y - 3 * y * z  # noqa
            M = [2 * abs(q[0]), 2 * abs(q[1]), 2 * abs(q[2])]
        else:              # Gaussian profile: |d2/dx2 exp(-a r^2)| <= 2a
            a = rs.uniform(0.2, 2.0)
            f = lambda x, y, z: np.exp(-a * (x * x + y * y + z * z))  # noqa
            M = [2 * a, 2 * a, 2 * a]
        bound = float((h[0] ** 2 * M[0] + h[1] ** 2 * M[1] + h[2] ** 2 * M[2]) / 8)
        npt = 400
        tg = [rs.uniform(g[0], g[-1], npt) for g in grids]
        # cell midpoints (where the bound is attained for quadratics) and a few nodes / faces
        for ax, g in enumerate(grids):
            mids = 0.5 * (g[1:] + g[:-1])
            tg[ax][:min(60, npt)] = rs.choice(mids, min(60, npt))
            tg[ax][60:80] = rs.choice(g, 20)
        tg = tuple(t.reshape(20, 20) for t in tg)
        ctx.count("interp_bound_targets", npt)
        try:
            got = numerical.interpolate(f(X, Y, Z), grids, tg, method="linear")
            err = np.abs(got - f(*tg))
            dev = float(np.max(err - bound))
            ratio = float(np.max(err) / bound) if bound > 0 else 0.0
        except Exception as ex:  # noqa
            dev, ratio = float("inf"), float("inf")
            ctx.notes.append("interpolate(linear) raised on a smooth field: %r" % (ex,))
        ctx.cov["interp_bound_max_ratio"] = max(ctx.cov.get("interp_bound_max_ratio", 0.0), ratio)
        if dev > 1e-12 * max(1.0, bound):
            found += ctx.violation(
                "interpolate(method=linear): error exceeds the proven bound (hx^2 Mx+hy^2 My+hz^2 Mz)/8 = %r by %r (field kind %d, %s grid)"
                % (bound, dev, kind, "uniform" if uniform else "irregular"),
                {"kind": "input", "check": "interp_bound", "observed": dev, "bound": bound},
                {"site": "interpolate", "check": "interp_bound"})
    return found


def _model_terms(s, l, m):
    """coefficients of the closed-form sum of sYlm (the formula of the docstring of maths.sYlm, re-derived here)."""
    from math import comb
    out = []
    if l < abs(s) or abs(m) > l:
        return out
    for r in range(max(m - s, 0), min(l + m, l - s) + 1):
        out.append(comb(l - s, r) * comb(l + s, r + s - m) * (-1) ** (l - r - s))
    return out


def _radicand(s, l, m):
    f = math.factorial
    return Fraction(f(l + m) * f(l - m) * (2 * l + 1), f(l + s) * f(l - s) * 4)


def proven_psi4_bound(s, l, m, l0, m0, ntheta, amp, e_interp):
    """Right-hand side of Props/C20d T28 (psi4lm_pure_mode): harmSup * 2 pi^2 * E_interp
    + [m == m0] defectBound(s, N, l, m, l0) * |amp|."""
    t = _model_terms(s, l, m)
    harm_sup = math.sqrt(float(_radicand(s, l, m)) / math.pi) * sum(abs(c) for c in t) if t else 0.0
    b = harm_sup * 2 * math.pi ** 2 * e_interp
    if m == m0:
        t0 = _model_terms(s, l0, m)
        abs_gram = sum(abs(c) * abs(c0) for c in t for c0 in t0)
        ktheta = 2 * abs_gram * (l + l0 + 1) ** 2
        if t and t0:
            b += (math.sqrt(float(_radicand(s, l, m)) / math.pi) * math.sqrt(float(_radicand(s, l0, m)) / math.pi)
                  * 2 * math.pi * ktheta * math.pi ** 3 / (24 * (ntheta + 1) ** 2)) * abs(amp)
    return b


def psi4_smooth_case(n, lmax, radius, center, A):
    """Psi4 = A ((x-cx)^2 + (y-cy)^2): smooth in Cartesian coordinates, NOT trilinear, and on the
    extraction sphere equal to amp * (-2)Y_20, amp = A R^2 (2/3)/sqrt(5/(24 pi)) (Props/C20d, exF_on_sphere).
    Returns (worst excess over the proven bound, worst error, coefficient dict)."""
    import aurel
    L = 1.0
    d = 2 * L / (n - 1)
    param = {"Nx": n, "Ny": n, "Nz": n, "xmin": -L, "ymin": -L, "zmin": -L, "dx": d, "dy": d, "dz": d}
    fd = aurel.FiniteDifference(param, verbose=False)
    rel = aurel.AurelCore(fd, verbose=False, lmax=lmax, extract_radii=[radius], interp_method="linear", center=center)
    x, y = fd.x - center[0], fd.y - center[1]
    f = A * (x * x + y * y)
    rel.data["Weyl_Psi4r"] = np.real(f).copy()
    rel.data["Weyl_Psi4i"] = np.imag(f).copy()
    a = rel["Psi4_lm"][radius]
    amp = A * radius ** 2 * (2.0 / 3.0) / math.sqrt(5.0 / (24.0 * math.pi))
    ntheta = max(n, lmax + 1)
    h = [float(np.max(np.diff(np.asarray(g)))) for g in (fd.xarray, fd.yarray, fd.zarray)]
    e_interp = (h[0] ** 2 * 2 * abs(A.real) + h[1] ** 2 * 2 * abs(A.real)) / 8 + (h[0] ** 2 * 2 * abs(A.imag) + h[1] ** 2 * 2 * abs(A.imag)) / 8
    worst, werr = -float("inf"), 0.0
    for (l, m), c in a.items():
        err = abs(c - (amp if (l, m) == (2, 0) else 0))
        werr = max(werr, err)
        worst = max(worst, err - proven_psi4_bound(-2, l, m, 2, 0, ntheta, amp, e_interp))
    return float(worst), float(werr), a, amp


def s_psi4_bound(ctx, cases):
    """The PROVEN end-to-end bound (Props/C20d T28) on the real code, for a Cartesian-smooth field that is a
    pure (-2)Y_20 on the extraction sphere; also O(h^2): the error at n = 25 is below 0.4 x the error at n = 13."""
    found = 0
    for case in cases:
        center, radius = case[0], case[1]
        A = case[2] if len(case) > 2 else complex(round(ctx.rng.uniform(0.3, 1.2), 2), round(ctx.rng.uniform(-1.2, -0.3), 2))
        res = {n: psi4_smooth_case(n, 3, radius, center, A) for n in (13, 25)}
        ctx.count("psi4_bound_runs", 2)
        tag = "0" if center == (0.0, 0.0, 0.0) else "off"
        ctx.cov["psi4_smooth_err_c%s" % tag] = [float(res[13][1]), float(res[25][1])]
        bad = [n for n in res if not res[n][0] <= 1e-12]
        slow = not (res[25][1] < 0.4 * res[13][1] + 1e-13)
        if bad or slow:
            found += ctx.violation(
                "rel['Psi4_lm'] on Psi4 = A((x-cx)^2+(y-cy)^2), A=%r, centre %r, R=%r: error %r (n=13), %r (n=25); excess over the "
                "proven bound %r, %r%s" % (A, center, radius, res[13][1], res[25][1], res[13][0], res[25][0],
                                          "; not second order in h" if slow else ""),
                {"kind": "input", "check": "psi4_bound", "center": list(center), "radius": radius, "A": [A.real, A.imag],
                 "observed": [res[13][1], res[25][1]]},
                {"site": "Psi4_lm", "check": "psi4_bound"})
    return found


def oracle_selfcheck(ctx):
    """The Jacobi-based oracle against sympy's Wigner d (small l): guards the
    oracle itself, never reported as a violation of the code."""
    import sympy as sp
    from sympy.physics.quantum.spin import Rotation
    t = sp.Symbol("t", real=True)
    tt = np.array([0.3, 1.2, 2.9])
    worst = 0.0
    for (l, mp, m) in [(2, 2, 2), (2, 1, -2), (2, -1, 0), (3, -2, 1), (3, 3, -1), (1, 0, 1), (2, 0, 2), (3, -3, -2)]:
        ref = sp.lambdify(t, Rotation.d(l, mp, m, t).doit(), "numpy")(tt)
        worst = max(worst, float(np.max(np.abs(wigner_d(l, mp, m, tt) - ref))))
    ctx.obligation("oracle self-check: Jacobi Wigner-d vs sympy Rotation.d", worst < 1e-12, "max dev %r" % worst, kind="audit")


def search(ctx, deep=False):
    lmax = ctx.budget(6, 10)
    found = 0
    found += s_orthonormal(ctx, lmax)
    found += s_oracle_values(ctx, lmax, ctx.budget(6, 20) * (2 if deep else 1))
    found += s_history(ctx)
    found += s_roundtrip(ctx, ctx.budget(4, 8))
    found += s_interpolate(ctx, ("linear", "nearest", "cubic") if ctx.tier == "quick"
                           else ("linear", "nearest", "slinear", "cubic", "quintic", "pchip"))
    modes = [(2, 2, (0.0, 0.0, 0.0)), (3, -1, (0.1, -0.05, 0.07))]
    if ctx.tier == "thorough" or deep:
        modes += [(2, 0, (0.0, 0.0, 0.0)), (4, -2, (0.0, 0.0, 0.0)), (2, -2, (0.05, 0.05, -0.1)), (3, 3, (0.0, 0.0, 0.0))]
    found += s_psi4(ctx, modes)
    found += s_interp_bound(ctx, ctx.budget(6, 24) * (2 if deep else 1))
    found += s_psi4_bound(ctx, [((0.0, 0.0, 0.0), 0.6), ((0.1, -0.05, 0.07), 0.55)]
                          + ([((0.0, 0.2, -0.1), 0.7)] if (ctx.tier == "thorough" or deep) else []))
    return found


def run(ctx):
    ctx.trusted += ["Lean 4.33 kernel; axioms propext, Classical.choice, Quot.sound; Mathlib (Complex.exp, Real.sqrt, geom_sum, "
                    "interval integrals / fundamental theorem of calculus, Polynomial.derivative, Rolle)",
                    "Model/Interp.lean is hand-written after scipy 1.18.1 (_rgi.py, _rgi_cython.pyx, _poly_common.pxi); tied to "
                    "numerical.interpolate(method='linear'), to the extrapolating interpolator object and to the compiled "
                    "find_indices EXACTLY on dyadic data (power-of-two spacings: all float operations exact)",
                    "Model/Harm.lean is hand-written; tied to maths.sYlm by a FLOAT comparison (1e-12 relative) at rational "
                    "points of the unit circle, to the Psi4_lm grids bitwise, to interpolate's refusal decision exactly",
                    "Spec/Harm.lean (Rodrigues formula, associated Legendre with Condon-Shortley phase) is the textbook definition",
                    "numpy/scipy: cos, sin, exp, sqrt, sc.binom, sc.factorial on small integers; RegularGridInterpolator",
                    "sentinel oracles: scipy eval_jacobi, leggauss, sph_harm_y; sympy Rotation.d (self-check)"]
    ctx.assumptions += ["orthonormality is proven about the model function sYlmC (exact real/complex arithmetic, iterated "
                        "interval integrals) for all integers; the constant Ktheta of the O(1/(Ntheta+1)^2) bound of the "
                        "theta-midpoint error is rigorous but crude for large l (triangle inequality over coefficient pairs)",
                        "the interpolation error bound (hx^2 Mx+hy^2 My+hz^2 Mz)/8 and the end-to-end extraction bound "
                        "C1 (hx^2+hy^2+hz^2) + C2/(Ntheta+1)^2 (Props/C20d) are theorems about InterpR.interp3, the copy of "
                        "Model/Interp over the reals (proven equal to the executable model on rational data), for fields "
                        "with bounded pure second partials on the box of the grid, i.e. smooth in CARTESIAN coordinates; "
                        "A (s)Y_lm(theta,phi) g(r) is in general discontinuous across the polar axis, so for the injected "
                        "pure modes of the sentinel s_psi4 the O(h^2) rate is NOT claimed (only the node-wise T31) — "
                        "numerical sentinel; both proven bounds are also checked on the real code (s_interp_bound, s_psi4_bound)",
                        "interpolation: only method='linear' on strictly ascending axes with >= 2 nodes is modelled; real "
                        "(non-dyadic) data are subject to round-off, which is not modelled",
                        "floating-point round-off is not modelled (exact real/complex arithmetic in the theorems)",
                        "NaN inputs of interpolate are outside the model (Rat has no NaN)"]
    # prove + audit
    ctx.prove(MODULE, THEOREMS)
    ctx.prove(MODULE_B, THEOREMS_B, timeout=2400)
    ctx.prove(MODULE_C, THEOREMS_C, timeout=2400)
    ctx.prove(MODULE_D, THEOREMS_D, timeout=2400)
    ctx.forbidden_scan(LEAN_FILES)
    if ctx.tier == "thorough":
        ctx.leanchecker([MODULE, MODULE_B, MODULE_C, MODULE_D])
    # correspondence
    for fn in (corr_ylm, corr_grid, corr_modes, corr_history, corr_bounds, corr_interp):
        try:
            fn(ctx)
        except Exception as ex:  # noqa
            ctx.obligation("correspondence:%s" % fn.__name__, False, repr(ex)[:600], kind="correspondence")
    # sentinel (always) / deeper search when something is broken
    try:
        oracle_selfcheck(ctx)
    except Exception as ex:  # noqa
        ctx.obligation("oracle self-check", False, repr(ex)[:300], kind="audit")
    search(ctx, deep=bool(ctx.broken()))


def replay(ctx, obj):
    chk = obj.get("check")
    n = 0
    if chk == "orthonormal":
        n = s_orthonormal(ctx, int(obj["lmax"]))
    elif chk in ("oracle_value", "spin0", "conj"):
        from aurel import maths
        s, l, m, th, ph = obj["s"], obj["l"], obj["m"], obj["theta"], obj["phi"]
        v = complex((np.asarray(maths.sYlm(s, l, m, np.array([th]), np.array([ph]))) * np.ones(1, dtype=complex)).ravel()[0])
        o = complex(oracle_sYlm(s, l, m, np.array([th]), np.array([ph]))[0])
        print("replay: sYlm(%d,%d,%d,%r,%r) = %r, oracle %r" % (s, l, m, th, ph, v, o))
        n = int(abs(v - o) > 1e-11 * 10) + s_oracle_values(ctx, max(l, 2), 4)
    elif chk == "history":
        fails = history_run(obj["s"], obj["lband"], obj["ntheta"], obj["seed"], obj["order"])
        for f_ in fails[:6]:
            print("replay: call %d (%s): %s deviates by %r" % f_)
        n = int(bool(fails))
    elif chk in ("roundtrip", "coeff_sum"):
        r = {k: roundtrip_error(obj["s"], obj["lband"], k, obj["seed"]) for k in (16, 32)}
        print("replay: round trip errors / structure deviations", r)
        n = int(not (r[32][0] < 0.6 * r[16][0] and r[32][0] < 0.05) or max(r[16][1], r[16][2], r[16][3]) > 1e-10 or not r[16][4])
    elif chk in ("interp_node", "interp_trilinear", "interp_outside"):
        n = s_interpolate(ctx, (obj.get("method", "linear"),))
    elif chk == "interp_bound":
        n = s_interp_bound(ctx, 24)
    elif chk == "psi4_bound":
        n = s_psi4_bound(ctx, [(tuple(obj["center"]), obj["radius"], complex(*obj["A"]))])
    elif chk == "psi4_mode":
        amp = complex(*obj["amp"])
        e = {k: psi4_mode_error(k, obj["l"], obj["m"], max(obj["l"], 3), 0.6, tuple(obj["center"]), amp)[0] for k in (12, 24)}
        print("replay: Psi4_lm pure-mode errors", e)
        n = int(not (e[24] < 0.7 * e[12] and e[24] < 0.1 * abs(amp)))
    else:
        n = search(ctx)
    print("replay: %d violation(s) now" % n)
    return 1 if n else 0


MANIFEST = {
    "category": "proof",
    "technique": "Lean 4 theorems about a hand-written rational model of maths.sYlm, the Psi4_lm angular grids, "
                 "interpolate's bounds check and scipy's linear RegularGridInterpolator (omega / ring / geometric sum of a "
                 "root of unity / interval integrals and the fundamental theorem of calculus in Mathlib / Polynomial "
                 "derivatives / kernel-decided integer tables / Rolle's theorem for the interpolation remainder), tied to the code by float (1e-12) and exact "
                 "correspondence; numerical sentinel for what remains analytic",
    "text": "PARTIAL proof. Proven for all parameters: (T1) every r of sYlm's loop has legal binomial arguments and "
            "non-negative exponents (no negative power at the poles), every r outside has a vanishing binomial (sum "
            "complete), l<|s| gives 0, factorial() is n! on all arguments that occur; (T2) the phi grid of Psi4_lm "
            "integrates e^{i(m-m')phi} exactly to 2pi delta for |m-m'|<=Nphi (sharp: Nphi+1 aliases to -2pi), hence "
            "harmonics with different m are exactly orthogonal on the extraction grid for any l; (T3/T16) at s=0 the closed "
            "form is (-1)^m times the standard Y_lm with associated Legendre functions (Rodrigues) for ALL l, |m|<=l "
            "(code follows Goldberg 1967 eq 3.1: no Condon-Shortley phase); (T4) conj(sYlm)=(-1)^(s+m) (-s)Y_(l,-m) for "
            "all s,l,m; (T5) coefficient and reconstruction maps are linear, depend only on the arguments of the call, "
            "and their composition is multiplication by the discrete Gram matrix; (T6) interpolate refuses exactly the "
            "targets outside [min,max] of some axis (boundary accepted) and names the first such axis. "
            "CONTINUOUS ORTHONORMALITY (iterated interval integrals over theta in [0,pi], phi in [0,2pi], weight sin theta): "
            "(T7) int_0^2pi e^{id phi} = 2pi delta_d0 for all integers d and the half-angle Beta integral "
            "int_0^pi cos(th/2)^2p sin(th/2)^2q sin th = 2 p! q!/(p+q+1)! for all p,q; (T8) for ALL integers s,l,m,l',m' the "
            "inner product of sY_lm and sY_l'm' equals delta_mm' * sqrt(R/pi) sqrt(R'/pi) 2pi * 2 Z/(l+l'+1)! with an explicit "
            "integer double sum Z (so orthogonality in m holds for all degrees); (T9) ORTHONORMALITY IN l AND NORM 1 FOR "
            "|s|<=2 AND l,l'<=12 ONLY (kernel-decided integer table of 5x13x13x25 entries; default lmax of Psi4_lm is 8), "
            "including inner product 0 for the vanishing l<|s|, |m|>l; (T10) norm 1 at the extreme orders m=+-l for every "
            "spin and EVERY l>=|s|, and invariance under (s,m,m')->(-s,-m,-m'). DISCRETE GRAM MATRIX on the Psi4_lm grid: "
            "(T11) for all s,l,l' and |m-m'|<=Nphi it equals delta_mm' times the theta MIDPOINT sum of the very integrand "
            "of T8, i.e. continuous value + theta-midpoint quadrature error thetaDefect; (T12) for |s|<=2, l,l'<=12: "
            "identity on admissible modes + delta_mm' thetaDefect; (T13) round trip on the concrete index types (keys of "
            "the coefficient dictionary, nodes of the grid), lmax<=12, lmax<=Ntheta: sYlm_coefficients(sYlm_reconstruct(a)) "
            "at (l,m) = a_lm (0 if l<|s|) + sum_l' thetaDefect(l,m,l') a_l'm — only equal m mix, and the hypothesis of "
            "roundtrip_partial is reduced to exactness of the theta rule; (T14) that hypothesis (DiscreteOrthonormal) is "
            "FALSE on the code's grid at every resolution: the discrete squared norm of 0Y00 is (pi/2M)/sin(pi/2M) > 1, "
            "M=Ntheta+1, and likewise for the spin Psi4_lm uses: the discrete squared norm of (-2)Y22 is > 1 for every Ntheta>=2; (T15) closed form of the midpoint rule and of the integral on every sine mode sin(k theta), "
            "relative excess u/sin u - 1 > 0, u = k pi/2M, for odd k < 2M. INTERPOLATION (T17, hand model of scipy 1.18 "
            "linear RegularGridInterpolator as numerical.interpolate calls it, strictly ascending axes with >= 2 nodes): "
            "the cell search returns the cell containing the target whatever the carried-over hint; exact at every "
            "node incl. boundary; nodal values of a trilinear field a0+a1x+a2y+a3z+a4xy+a5xz+a6yz+a7xyz are reproduced "
            "exactly at every target (also by the linear continuation outside); inside the grid the value lies between "
            "the bounds of the 8 corner values. "
            "ALL DEGREES (Props/C20c): (T18) ORTHONORMALITY over the sphere for ALL integers s,l,m,l',m': the inner product "
            "is 1 iff (l,m)=(l',m') is an admissible mode (|s|<=l, |m|<=l), else 0 — proven by algebraic integration by parts "
            "in Q[X] on the Rodrigues form of the code's binomial sum, Vandermonde for the norm, and the symmetries "
            "(s,m)->(-s,-m), s<->m; the table of T9 stays as an independent kernel computation; (T19) the two integer "
            "identities behind it; (T20) discrete Gram matrix = identity + delta_mm' thetaDefect for all spins and degrees, "
            "with |thetaDefect| <= sqrt(R/pi) sqrt(R'/pi) 2pi Ktheta pi^3/(24 (Ntheta+1)^2), Ktheta = 2 (sum |coef coef'|) "
            "(l+l'+1)^2 a computable natural number; (T21) for every spin and every lmax<=Ntheta the round trip "
            "sYlm_coefficients(sYlm_reconstruct(a)) has the closed-form defect of T13, an explicit O(1/(Ntheta+1)^2) error "
            "bound, and CONVERGES key by key to a (to 0 on the vanishing modes l<|s|) as Ntheta -> infinity; (T22) the "
            "composite midpoint rule |sum g(mid) h - int g| <= K M h^3/24 for |g''|<=K. "
            "SPATIAL INTERPOLATION ERROR AND THE EXTRACTION END TO END (Props/C20d): (T23) 1-D linear interpolation of g "
            "(continuous on [a,b], twice differentiable inside, |g''|<=M): |(1-t)g(a)+t g(b)-g(a+t(b-a))| <= (b-a)^2 M/8 "
            "(Rolle twice; constant sharp); (T24) tensor product on a cell: |trilinear interpolant of the 8 corner values - f| "
            "<= ((x1-x0)^2 Mx+(y1-y0)^2 My+(z1-z0)^2 Mz)/8 with the PURE second partials only (1-D interpolation has "
            "non-negative weights summing to 1); (T25) InterpR.interp3, the definitions of Model/Interp with Rat replaced by "
            "the reals (needed: sphere points and harmonic values are irrational), returns on rational grids, values and "
            "targets exactly the value of the executable model, and the same interval for every hint; (T26) lifted through "
            "the cell search: at EVERY target inside a strictly ascending grid with cell widths <= hx,hy,hz, "
            "|interpolant of f(nodes) - f| <= (hx^2 Mx+hy^2 My+hz^2 Mz)/8; (T27) psi4_sphere = interpolate(Re)+1j "
            "interpolate(Im) on the points R(sin th cos ph, sin th sin ph, cos th) of the Psi4_lm grid followed by "
            "sYlm_coefficients: if Psi4 has bounded second partials on the box of the grid, the sphere nodes are inside the "
            "grid (interpolate's bounds check), lmax<=Ntheta and Psi4 = sum_j a_j sY_j on the sphere nodes, then "
            "|psi4lm_i - a_i| <= harmSup_i 2pi^2 (bound of T26 for Re + for Im) + sum_{j:m_j=m_i} defectBound |a_j|, "
            "harmSup = sqrt(R_slm/pi) sum_r |coef_r| >= sup |sY_lm|, sum of the angular weights <= 2 pi^2; (T28) a field that is "
            "amp sY_{l0m0} on the extraction sphere (e.g. A sY_lm g(r), amp = A g(R)) yields amp at (l0,m0) and 0 at every "
            "other key within that bound; (T29) explicit rate C1 (hx^2+hy^2+hz^2) + C2/(Ntheta+1)^2, C1 = harmSup pi^2 M/2, "
            "C2 = sum_j defectConst |a_j|, independent of grid and Ntheta; (T30) CONVERGENCE WITH ANGULAR AND GRID "
            "RESOLUTION: along any sequence of grids containing the sphere with widths -> 0 and Ntheta -> infinity, "
            "psi4lm_i -> a_i; (T31) local versions: T26 with regularity only on the cells containing the target, T27 from "
            "arbitrary node-wise interpolation errors. All hypotheses are instantiated (Psi4 = x^2+y^2 = exAmp (-2)Y_20 on "
            "the unit sphere, uniform grids of spacing 1/(n+1) on [-2,2]^3, Ntheta = n+2). "
            "NOT proven, watched only numerically on the real code: the O(h^2) rate for fields that are not smooth in "
            "Cartesian coordinates — A sY_lm(theta,phi) g(r) is in general discontinuous across the polar axis (e.g. "
            "(-2)Y_22 ~ cos^4(theta/2) e^{2i phi} at theta=0), so T27-T30 do not apply to the injected pure modes of the "
            "sentinel s_psi4 (only T31 does, node-wise) —, interpolation methods other than linear, IEEE round-off; the "
            "constants Ktheta, harmSup, 2pi^2 are rigorous but not sharp; the two proven bounds are additionally checked on "
            "the REAL code (s_interp_bound: plane waves with a mixed term, quadratics at cell midpoints where 1/8 is "
            "attained, Gaussians, uniform and irregular grids; s_psi4_bound: rel['Psi4_lm'] on Psi4 = A((x-cx)^2+(y-cy)^2) "
            "within the bound of T28 and second order in h); independent cross-checks kept: Gauss-Legendre x trapezoid quadrature of all pairs up to lmax 6/10, "
            "Wigner-d/Jacobi evaluation of every (s,l,m), scipy sph_harm_y at s=0, absence of hidden state in "
            "sYlm_coefficients / sYlm_reconstruct (several samplings of one array shape in one process; on the "
            "Gauss-Legendre grid round trip and Gram matrix exact to round-off).",
    "note": "Trusted: Lean kernel + propext/Classical.choice/Quot.sound; Mathlib; the hand-written models (sYlm tie is a "
            "float comparison at 1e-12 because cos/sin/sqrt/pi are transcendental: Pythagorean points, s in -2..2, l<=6 "
            "quick / 10 thorough, all |m|<=l and |m|>l, l<|s|; grids/weights bitwise; bounds decisions exact on dyadic "
            "rationals; linear interpolation, its extrapolation branch and scipy's compiled find_indices EXACTLY on dyadic "
            "data with power-of-two spacings); Spec/Harm.lean as the definition of P_l^m; numpy/scipy special functions. "
            "The continuous inner product is the iterated interval integral of the model function sYlmC (real "
            "normalisation x polynomial in cos(theta/2), sin(theta/2) x e^{im phi}); orthonormal_upto_12 is the "
            "kernel-decided table (l,l'<=12 only, says so in its name), orthonormal_all the general theorem. "
            "roundtrip_partial still carries its hypothesis DiscreteOrthonormal, now PROVEN false on the code's grid "
            "(discrete_orthonormal_is_false, discrete_orthonormal_is_false_spin_m2) and replaced by the closed-form "
            "defect with bound and limit (roundtrip_defect_closed_form, roundtrip_converges). Props/C20d states the "
            "interpolation and extraction bounds about InterpR.interp3 (Model/Interp over the reals; "
            "real_interpolant_is_model ties it to the executable model, corr_interp ties that to scipy) with the "
            "regularity hypothesis C2On on axis-parallel slices (continuous on the closed interval, twice differentiable "
            "inside, second derivative bounded): these are the pure second partials; nothing is assumed about mixed "
            "partials. NaN targets and IEEE round-off are outside the model.",
}
