"""C03 — frozen inputs are never evicted; clean-up bookkeeping is consistent.

Proof: Props/C03.lean over the hand-written Model/Cache.lean (literal model of
__getitem__ / cleanup_cache / freeze_data / load_data and the time-series
driver's assignments; sizes are inputs of the model).
Tie B: the real AurelCore is subclassed *in this process* (no source hook) to
log the nested request trace with the sizes the code measures; the Lean driver
Driver/C03.lean replays the trace through the model and has to reproduce, after
every event, the ordered keys of data, the ordered (key, stamp) list of
last_accessed, the count and the evicted keys in order.
Search oracle (independent of the model): monitors on the real object after
every event.

The harness (config/op generation, traced execution) is shared with C01.
"""
import hashlib
import sys
from fractions import Fraction

import numpy as np

from lib import fw

MODULE = "AurelVerif.Props.C03"
THEOREMS = ["AurelVerif.C03." + t for t in (
    "cleanup_terminates", "cleanup_no_error", "store_no_error",
    "inv_hit", "inv_store", "inv_cleanup", "inv_freeze", "inv_load", "inv_assign", "inv_assignFrozen",
    "inv_setImp", "inv_fresh", "rnd64_ok", "cleanup_paired", "only_whole_unfrozen", "frozen_stays_cleanup",
    "frozen_stays", "history_safe", "history_inv")]
LEAN_FILES = ["AurelVerif/Props/C03.lean", "AurelVerif/Lemmas/Cache.lean", "AurelVerif/Model/Cache.lean",
              "Driver/C03.lean"]

# thresholds in units of one scalar array; the frozen inputs alone take 0..33 of them
THRESHOLDS = (0.25, 20.5, 40.5, 60.5, 90.5, 150.5, 400.5, 10 ** 6)
# keys whose alternatives agree only on solutions of Einstein's equations and up to discretisation error
SOL_KEYS = ("st_Ricci_down4", "st_Ricci_down3", "st_Weyl_down4", "Weyl_Psi")
IMPORTANCE = [0, 0.0, 0.125, 0.5, 1.0, 2.0, 8.0, 0.3, 0.7, 0.002, 0.1, 1.7, 1e-3, 3]


# --------------------------------------------------------------------------
# real objects
# --------------------------------------------------------------------------
def aurel_modules():
    import aurel
    from aurel import core
    from aurel.utils import memory
    return aurel, core, memory


def make_fd(N, order, L=4.0):
    aurel, _, _ = aurel_modules()
    d = L / N
    param = {"Nx": N, "Ny": N, "Nz": N, "xmin": -L / 2 + 0.3, "ymin": -L / 2 + 0.2, "zmin": -L / 2 + 0.1,
             "dx": d, "dy": d, "dz": d}
    return aurel.FiniteDifference(param, fd_order=order, verbose=False)


def analytic_fields(fd, variant=0):
    """Hand-made smooth, generic fields: non-diagonal metric, non-zero shift,
    non-unit lapse, moving fluid.  `variant` changes amplitudes/phases."""
    x, y, z = fd.x, fd.y, fd.z
    ph = 0.37 * variant

    def s(a, b, c, amp=0.05):
        return amp * np.sin(a * x + 0.3 + ph) * np.cos(b * y - 0.2 + ph) * np.cos(c * z + 0.1)
    g = np.array([[1.2 + s(1, .5, .7), s(.4, .9, .3), s(.8, .2, .5)],
                  [s(.4, .9, .3), 1.1 + s(.3, .6, 1), s(.5, .5, .5)],
                  [s(.8, .2, .5), s(.5, .5, .5), 0.9 + s(.9, .4, .2)]])
    K = 0.3 * np.array([[s(.2, .3, .4), s(1, 1, .2), s(.3, .1, .9)],
                        [s(1, 1, .2), s(.7, .7, .1) - 0.02, s(.6, .2, .2)],
                        [s(.3, .1, .9), s(.6, .2, .2), s(.1, .8, .5) + 0.03]])
    alpha = 1.2 + s(.6, .4, .9)
    beta = np.array([s(.5, .1, .3) + 0.02, s(.2, .7, .1) - 0.03, s(.3, .3, .8) + 0.01])
    dtbeta = np.array([s(.15, .1, .3), s(.2, .17, .1), s(.3, .13, .8)])
    rho0 = 1.0 + s(.3, .4, .5)
    # rho0 with exact zeros on a slab (exercises safe_division in eps / rho0)
    rho0z = rho0.copy()
    rho0z[: max(1, rho0.shape[0] // 3)] = 0.0
    f = {"gammadown3": g, "Kdown3": K, "alpha": alpha, "betaup3": beta, "dtalpha": s(.1, .2, .3),
         "dtbetaup3": dtbeta, "rho0": rho0, "rho0z": rho0z, "eps": 0.1 + s(.5, .4, .3), "press": 0.2 + s(.2, .2, .6),
         "w_lorentz": 1.05 + s(.4, .1, .1) ** 2, "velx": s(.3, .2, .1), "vely": s(.1, .2, .3),
         "velz": s(.2, .2, .2)}
    comp = [("gxx", g[0, 0]), ("gxy", g[0, 1]), ("gxz", g[0, 2]), ("gyy", g[1, 1]), ("gyz", g[1, 2]), ("gzz", g[2, 2]),
            ("kxx", K[0, 0]), ("kxy", K[0, 1]), ("kxz", K[0, 2]), ("kyy", K[1, 1]), ("kyz", K[1, 2]), ("kzz", K[2, 2]),
            ("betax", beta[0]), ("betay", beta[1]), ("betaz", beta[2]),
            ("dtbetax", dtbeta[0]), ("dtbetay", dtbeta[1]), ("dtbetaz", dtbeta[2])]
    for k, v in comp:
        f[k] = v.copy()
    f["rho"] = rho0 * (1 + f["eps"])
    # a generic symmetric energy-stress tensor (positive T_00, non-zero fluxes and stresses)
    T = np.zeros((4, 4) + x.shape)
    T[0, 0] = 1.3 + s(.3, .4, .5)
    for i in range(1, 4):
        T[0, i] = T[i, 0] = s(.2 * i, .3, .1 * i, 0.08)
        for j in range(i, 4):
            T[i, j] = T[j, i] = (0.4 if i == j else 0.0) + s(.1 * i, .2 * j, .3, 0.06)
    f["Tdown4"] = T
    return f


# input sets the generator chooses from (every set is a list of (data key, field name))
INPUT_SETS = {
    "tensors": ["gammadown3", "Kdown3", "alpha", "betaup3", "dtalpha", "dtbetaup3", "rho0", "eps", "press",
                "w_lorentz", "velx", "vely", "velz"],
    "components": ["gxx", "gxy", "gxz", "gyy", "gyz", "gzz", "kxx", "kxy", "kxz", "kyy", "kyz", "kzz", "alpha",
                   "betax", "betay", "betaz", "dtbetax", "dtbetay", "dtbetaz", "rho0", "press"],
    "noshift": ["gammadown3", "Kdown3", "alpha", "rho0", "press", "eps"],
    "rho0zeros": ["gammadown3", "Kdown3", "alpha", "betaup3", ("rho0", "rho0z")],
    "rho_only": ["gammadown3", "Kdown3", "alpha", "betaup3", "rho", "press"],
    "rho_eps": ["gammadown3", "Kdown3", "betaup3", "rho", "eps"],
    "vacuumlike": ["gammadown3", "Kdown3", "alpha", "betaup3", "dtbetaup3"],
    "minkowski": [],
    # matter supplied as an energy-stress tensor
    "fluid_T": ["gammadown3", "Kdown3", "alpha", "betaup3", "dtalpha", "dtbetaup3", "Tdown4"],
    # shift given by components WITHOUT betax (exposes the beta = 0 shortcut of s_to_st, see C01)
    # exact solutions of Einstein's equations shipped with aurel (inputs = the module's data(t, x, y, z), t = 1.5)
    "sol:Collins_Stewart": [], "sol:Non_diagonal": [], "sol:Rosquist_Jantzen": [],
    "partial_shift": ["gxx", "gxy", "gxz", "gyy", "gyz", "gzz", "kxx", "kxy", "kxz", "kyy", "kyz", "kzz", "alpha",
                      "betay", "betaz", "rho0", "press"],
}


SOL_INPUTS = {"Collins_Stewart": ["gammadown3", "rho", "press", "Kdown3"],
              "Non_diagonal": ["gammadown3", "Kdown3", "Tdown4"],
              "Rosquist_Jantzen": ["gammadown3", "Kdown3", "Tdown4"]}


# quantities a user may supply although aurel can compute them (frozen like every other input)
DERIVED_INPUTS = ["st_Riemann_down4", "s_Ricci_down3", "gammaup3", "Ktrace", "gdown4", "gup4", "s_Gamma_udd3",
                  "s_Riemann_down3", "st_Ricci_down4", "Kup3", "uup4", "Tdown4", "st_Gamma_udd4", "gammadet"]


def input_keys(cfg):
    """names of the frozen inputs of a configuration"""
    if cfg["inputs"].startswith("sol:"):
        return list(SOL_INPUTS[cfg["inputs"][4:]]) + list(cfg.get("derived", ()))
    return [k for k in (e if isinstance(e, str) else e[0] for e in INPUT_SETS[cfg["inputs"]])
            if k not in cfg.get("drop", ())] + list(cfg.get("derived", ()))


def description_keys():
    _, core, _ = aurel_modules()
    return list(core.descriptions.keys())


class LogDict(dict):
    """A dict that records `del d[k]` (name, key) in a shared list.  It is a
    dict subclass, so get_size / `in` / iteration behave exactly as for a dict."""

    def __init__(self, name, log, *a):
        super().__init__(*a)
        self._name, self._log = name, log

    def __delitem__(self, k):
        self._log.append((self._name, k))
        super().__delitem__(k)


def checksum(v):
    h = hashlib.sha1()

    def rec(o):
        if isinstance(o, np.ndarray):
            h.update(str(o.shape).encode() + str(o.dtype).encode())
            h.update(np.ascontiguousarray(o).tobytes())
        elif isinstance(o, (list, tuple)):
            h.update(b"[%d" % len(o))
            for i in o:
                rec(i)
        elif isinstance(o, dict):
            for k in o:
                h.update(repr(k).encode())
                rec(o[k])
        else:
            h.update(repr(o).encode())
    rec(v)
    return h.hexdigest()[:16]


def snapshot(tag, rel, ev):
    return "%s c=%d d=%s l=%s e=%s" % (
        tag, rel.calculation_count, ",".join(rel.data.keys()),
        ",".join("%s:%d" % kt for kt in rel.last_accessed.items()), ",".join(ev))


def frac_words(x):
    fr = Fraction(x)
    return "%d %d" % (fr.numerator, fr.denominator)


class Trace:
    def __init__(self):
        self.lines, self.expect = [], []     # driver input / expected driver output
        self.stack = []                      # keys of the misses in flight
        self.dels = []                       # (dict name, key) deletions, shared by both LogDicts
        self.failures = []                   # monitor failures (independent oracle)
        self.next_id = 1
        self.children = []                   # per miss in flight: direct child requests
        self.bodies = []                     # (key, present-set at entry, [child keys]) of finished misses
        self.kinds = {}
        self.evictions = 0
        self.evictions_regular = 0           # evicted while the memory threshold was NOT exceeded (first pass only)
        self.cleanups_exceeded = 0
        self.watch = False                   # hash every value when it is stored (C01 oracle)
        self.stored_hash = {}                # key -> (the array object itself, checksum) at the moment of the store
        self.prov = {}                       # key -> (provenance hash, frozenset of alternatives of SOL_KEYS)
        self.childprov = []

    def emit(self, line, expect):
        self.lines.append(line)
        self.expect.append(expect)
        k = line.split(" ", 1)[0] + ("/" + expect.split(" ", 1)[0].split(":")[0] if line.startswith("req") else "")
        self.kinds[k] = self.kinds.get(k, 0) + 1


def make_traced_class():
    """Subclass of the real AurelCore that logs; defined at call time so that
    the class of the current AUREL_REPO is used."""
    _, core, memory = aurel_modules()
    get_size = memory.get_size

    class Traced(core.AurelCore):
        def __init__(self, fd, **kw):
            super().__init__(fd, **kw)
            self._tr = Trace()
            self.data = LogDict("data", self._tr.dels, self.data)
            self.last_accessed = LogDict("last", self._tr.dels, self.last_accessed)
            self._ids = {}

        # ---- helpers for the harness (not part of aurel)
        def _val_words(self, v):
            i = self._tr.next_id
            self._tr.next_id += 1
            self._ids[id(v)] = i
            return "%d %d %d" % (i, self._size(v), sys.getsizeof(v))

        def _size(self, v):
            # the size function is part of the code under test: if it raises on a legitimate value the history
            # reports that (clean-up, which calls it on the whole store, cannot terminate normally either)
            try:
                return get_size(v)
            except Exception as ex:  # noqa
                self._tr.failures.append(("get_size raised %s: %s" % (type(ex).__name__, str(ex)[:100]),
                                          type(v).__name__))
                return int(getattr(v, "nbytes", 0))

        def h_header(self):
            tr = self._tr
            p = self.param
            tr.emit("reset", snapshot("ok", self, []))
            tr.emit("scalar %d" % (p["Nx"] * p["Ny"] * p["Nz"] * 8), snapshot("ok", self, []))
            tr.emit("period %d" % self.clear_cache_every_nbr_calc, snapshot("ok", self, []))
            tr.emit("thr " + frac_words(Fraction(self.memory_threshold_inGB) * 2 ** 30), snapshot("ok", self, []))
            for k, q in self.var_importance.items():
                if q != 1.0:
                    tr.emit("imp %s %s" % (k, frac_words(q)), snapshot("ok", self, []))

        def h_ksz(self, k):
            self._tr.emit("ksz %s %d" % (k, get_size(k)), snapshot("ok", self, []))

        def h_assign(self, k, v, frozen=False):
            self.h_ksz(k)
            self.data[k] = v
            self._tr.prov[k] = (("in", k, self._tr.next_id), frozenset())
            if frozen:
                self.var_importance[k] = 0
            self._tr.emit("%s %s %s" % ("assignf" if frozen else "assign", k, self._val_words(v)),
                          snapshot("ok", self, []))

        def h_freeze(self):
            self.freeze_data()
            self._tr.emit("freeze", snapshot("ok", self, []))

        def h_load(self, sim_data, iteration):
            """the REAL load_data(sim_data, iteration); the trace lines are those of the documented effect
            (one assignment per key of sim_data, then freeze_data): anything else load_data does to the
            instance shows up as a difference between the real snapshot and the model's"""
            for k in sim_data:
                self.h_ksz(k)
            self.load_data(sim_data, iteration)
            for k in sim_data:
                self._tr.prov[k] = (("in", k, self._tr.next_id), frozenset())
                self._tr.emit("assign %s %s" % (k, self._val_words(self.data[k])) if k in self.data else "assign %s 0 0 0" % k,
                              None)
            self._tr.emit("freeze", snapshot("ok", self, []))

        def h_set(self, what, value):
            if what == "period":
                self.clear_cache_every_nbr_calc = value
                self._tr.emit("period %d" % value, snapshot("ok", self, []))
            elif what == "thr":
                self.memory_threshold_inGB = value
                self._tr.emit("thr " + frac_words(Fraction(value) * 2 ** 30), snapshot("ok", self, []))
            else:
                self.var_importance[what] = value
                self._tr.emit("imp %s %s" % (what, frac_words(value)), snapshot("ok", self, []))

        # ---- the two observation points
        def __getitem__(self, key):
            tr = self._tr
            if tr.children:
                tr.children[-1].append(key)
            if key in self.data:
                out = super().__getitem__(key)
                tr.emit("req " + key, snapshot("hit", self, []))
                if tr.childprov:
                    tr.childprov[-1].append(tr.prov.get(key, (("in", key), frozenset())))
                return out
            self.h_ksz(key)
            tr.emit("req " + key, snapshot("miss", self, []))
            tr.stack.append(key)
            tr.children.append([])
            tr.childprov.append([])
            present = frozenset(self.data.keys())
            ok = False
            try:
                out = super().__getitem__(key)
                ok = True
            finally:
                tr.stack.pop()
                kids = tr.children.pop()
                cp = tr.childprov.pop()
                tr.bodies.append((key, present, kids, ok))
                if ok:
                    sol = frozenset().union(*[c[1] for c in cp]) if cp else frozenset()
                    if key in SOL_KEYS:
                        sol = sol | {(key, kids[0] if kids else None)}   # first request identifies the alternative
                    pv = (hash((key, tuple(c[0] for c in cp))), sol)
                    tr.prov[key] = pv
                    if tr.childprov:
                        tr.childprov[-1].append(pv)
            if key in self.data and out is not self.data[key]:
                tr.failures.append(("returned object is not the cached entry", key))
            return out

        def cleanup_cache(self):
            tr = self._tr
            in_tail = bool(tr.stack) and tr.stack[-1] in self.data \
                and self.last_accessed.get(tr.stack[-1]) == self.calculation_count
            before = dict(self.data)
            imp_before = {k: self.var_importance.get(k, 1.0) for k in before}
            if in_tail:
                key = tr.stack[-1]
                line = "done %s %s" % (key, self._val_words(self.data[key]))
                if tr.watch:
                    tr.stored_hash[key] = (self.data[key], checksum(self.data[key]))
                vid = self._ids[id(self.data[key])]
            del tr.dels[:]
            exceeded = self._size(self.data) >= self.memory_threshold_inGB * 1024 * 1024 * 1024
            tr.cleanups_exceeded += exceeded
            try:
                super().cleanup_cache()
            except Exception as ex:  # noqa
                tr.failures.append(("cleanup_cache raised %s: %s" % (type(ex).__name__, ex), tr.stack[-1:] or None))
                tr.emit(line if in_tail else "cleanup", snapshot("err:" + type(ex).__name__, self, []))
                raise
            dels = list(tr.dels)
            ev = [k for n, k in dels if n == "data"]
            # independent monitors (paired deletion, only whole unfrozen entries)
            if [k for n, k in dels if n == "last"] != ev or any(
                    dels[2 * i][1] != dels[2 * i + 1][1] or dels[2 * i][0] == dels[2 * i + 1][0]
                    for i in range(len(dels) // 2)) or len(dels) % 2:
                tr.failures.append(("unpaired deletion", dels[:8]))
            for k in ev:
                if not imp_before.get(k, 1.0) > 0:
                    tr.failures.append(("evicted key with importance %r" % imp_before.get(k), k))
            for k, v in self.data.items():
                if k not in before or before[k] is not v:
                    tr.failures.append(("cleanup_cache changed/added an entry", k))
            if set(before) - set(self.data) != set(ev):
                tr.failures.append(("keys vanished without del", sorted(set(before) - set(self.data) - set(ev))))
            tr.evictions += len(ev)
            if not exceeded:
                tr.evictions_regular += len(ev)
            if in_tail:
                tr.emit(line, snapshot("ret:%d" % vid, self, ev))
            else:
                tr.emit("cleanup", snapshot("ok", self, ev))

    return Traced


# --------------------------------------------------------------------------
# configurations and histories (pure data, replayable)
# --------------------------------------------------------------------------
def gen_config(rng, tier):
    N = rng.choice((8, 8, 9, 10, 12) if tier == "thorough" else (8, 8, 9, 10))
    name = rng.choice(list(INPUT_SETS))
    cfg = {"N": N, "order": rng.choice((2, 4)), "inputs": name, "variant": rng.randrange(3),
           "vacuum": name == "vacuumlike" and rng.random() < 0.7 or rng.random() < 0.1,
           "Lambda": rng.choice((0.0, 0.0, 0.3)), "tetrad": rng.choice(("quasi-Kinnersley",) * 4 + ("other",)),
           "period": rng.randrange(1, 6),
           # threshold in units of one scalar array (Nx*Ny*Nz*8 bytes); 0 = below the frozen total
           "thr_scalars": rng.choice(THRESHOLDS),
           "drop": []}
    if name.startswith("sol:"):      # options consistent with the solution (matter present, Lambda = 0)
        cfg["vacuum"], cfg["Lambda"] = False, 0.0
    # drop a few inputs (partial input sets, e.g. betay without betax)
    keys = [e if isinstance(e, str) else e[0] for e in INPUT_SETS[name]]
    if keys and name != "partial_shift" and rng.random() < 0.3:
        cfg["drop"] = rng.sample(keys, rng.randrange(1, min(4, len(keys)) + 1))
    # the user may also supply (and freeze) quantities aurel could compute itself, e.g. a Riemann tensor read from
    # elsewhere: values taken from a fresh instance; they are frozen inputs like any other
    if rng.random() < 0.35:
        cfg["derived"] = rng.sample(DERIVED_INPUTS, rng.randrange(1, 3))
    if rng.random() < 0.3:
        cfg["center"] = [0.25, -0.125, 0.5]      # an off-centre extraction sphere / tetrad centre
    if rng.random() < 0.25:
        cfg["backing"] = "frombuffer"
    return cfg


def gen_ops(rng, nreq, keys):
    ops = []
    hot = rng.sample(keys, min(len(keys), rng.randrange(6, 40)))
    for _ in range(nreq):
        r = rng.random()
        if r < 0.80:
            ops.append(["get", rng.choice(hot) if rng.random() < 0.6 else rng.choice(keys)])
        elif r < 0.84:
            ops.append(["period", rng.randrange(1, 6)])
        elif r < 0.88:
            ops.append(["thr", rng.choice(THRESHOLDS)])
        elif r < 0.93:
            ops.append(["imp", rng.choice(keys), rng.choice(IMPORTANCE)])
        elif r < 0.95:
            ops.append(["freeze"])
        elif r < 0.97:
            ops.append(["cleanup"])
        elif r < 0.99:
            # (a grid scalar is stored: only names whose consumers expect a scalar field)
            ops.append(["custom", rng.choice(("custom_a", "custom_b", "press", "velx", "dtalpha")),
                        [rng.choice(keys) for _ in range(rng.randrange(0, 4))]])
        else:
            ops.append(["load", rng.sample(("alpha", "press", "velx", "dtalpha", "custom_a"), 2)])
    return ops


def build(cfg):
    """Real (traced) instance with the frozen inputs of `cfg`; returns (rel, fields)."""
    Traced = make_traced_class()
    fd = make_fd(cfg["N"], cfg["order"])
    fields = analytic_fields(fd, cfg["variant"])
    scalar = cfg["N"] ** 3 * 8
    kw = dict(verbose=False, clear_cache_every_nbr_calc=cfg["period"],
              memory_threshold_inGB=int(cfg["thr_scalars"] * scalar) / 2 ** 30,
              vacuum=cfg["vacuum"], Lambda=cfg["Lambda"], tetrad=cfg["tetrad"], lmax=2)
    if cfg.get("center"):
        kw["center"] = tuple(cfg["center"])
    rel = Traced(fd, **kw)
    # the FiniteDifference object is shared state outside the cache (over_time uses ONE for all its steps): no
    # request may change it
    rel._fd_snapshot = {n: np.array(getattr(fd, n), copy=True) for n in
                        ("xarray", "yarray", "zarray", "x", "y", "z", "r", "theta", "phi")}
    rel.h_header()
    if cfg["inputs"].startswith("sol:"):
        import importlib
        sol = importlib.import_module("aurel.solutions." + cfg["inputs"][4:])
        d = sol.data(1.5, fd.x, fd.y, fd.z)
        if sorted(d) != sorted(SOL_INPUTS[cfg["inputs"][4:]]):
            raise RuntimeError("solution %s provides %s" % (cfg["inputs"], sorted(d)))
        for k, v in d.items():
            v = np.array(v, dtype=float)
            if v.shape == ():           # homogeneous quantity given as a number: a field on the grid
                v = np.full(rel.data_shape, float(v))
            rel.h_assign(k, v)
    else:
        for e in INPUT_SETS[cfg["inputs"]]:
            k, f = (e, e) if isinstance(e, str) else e
            if k not in cfg["drop"]:
                v = fields[f].copy()
                if cfg.get("backing") == "frombuffer":
                    # arrays that do not own their memory and whose base is not an ndarray (np.frombuffer over a
                    # bytearray; np.memmap behaves alike): legitimate inputs, e.g. data mapped from a file
                    v = np.frombuffer(bytearray(v.tobytes()), dtype=v.dtype).reshape(v.shape)
                rel.h_assign(k, v)
    if cfg.get("derived"):
        _, core, _ = aurel_modules()
        src = core.AurelCore(fd, verbose=False, vacuum=cfg["vacuum"], Lambda=cfg["Lambda"], tetrad=cfg["tetrad"], lmax=2)
        for k, v in rel.data.items():
            src.data[k] = np.array(v, copy=True)
        src.freeze_data()
        for k in cfg["derived"]:
            if k not in rel.data:
                with np.errstate(all="ignore"):
                    rel.h_assign(k, np.array(src[k], copy=True))
    rel.h_freeze()
    return rel, fields


class Monitor:
    """Independent oracle on the real object: frozen entries stay, with the same
    bytes; the age table only describes cached entries.  What is frozen is
    decided by the API contract, not by reading var_importance: everything in
    `data` at a freeze_data()/load_data() call, every custom variable of the
    time-series driver, every key the user gave importance 0 while cached —
    until the user gives it a non-zero importance or overwrites it."""

    def __init__(self, rel, watch_values=False):
        self.rel = rel
        self.frozen = {}
        # key -> (the array object itself, checksum) of every cached entry seen so far.  The OBJECT is kept, not its
        # id(): once an evicted array is freed CPython may hand the same address to the recomputed one, and a
        # legitimately recomputed entry would then be reported as 'modified in place' (seen: intermittent false alarm)
        self.watch = {} if watch_values else None

    def check_values(self, where):
        """every array still cached that was cached before must have the bytes it had then
        (an entry modified in place explains a history dependence; overlaps with C02)"""
        out = []
        if self.watch is None:
            return out
        seen = {}
        for k, v in self.rel.data.items():
            old = self.watch.get(k)
            if old is not None and old[0] is v:
                cs = checksum(v)
                if cs != old[1]:
                    out.append(("cached entry modified in place", k, where))
                seen[k] = (v, cs)
            else:
                cs = checksum(v)
                st = self.rel._tr.stored_hash.get(k)
                if st is not None and st[0] is v and st[1] != cs:
                    # modified between its store and the end of the request that computed it
                    out.append(("cached entry modified in place", k, where))
                seen[k] = (v, cs)
        self.watch = seen
        return out

    def freeze_all(self):
        for k, v in self.rel.data.items():
            if k not in self.frozen:
                self.frozen[k] = (checksum(v), id(v))

    def freeze(self, keys):
        for k in keys:
            if k in self.rel.data:
                self.frozen[k] = (checksum(self.rel.data[k]), id(self.rel.data[k]))

    def unfreeze(self, k):
        self.frozen.pop(k, None)

    def check(self, where):
        rel, out = self.rel, []
        for k, (cs, oid) in self.frozen.items():
            if k not in rel.data:
                out.append(("frozen key evicted", k, where))
            elif id(rel.data[k]) != oid or checksum(rel.data[k]) != cs:
                out.append(("frozen key altered", k, where))
            elif rel.var_importance.get(k, 1.0) != 0:
                out.append(("frozen key has importance %r" % rel.var_importance.get(k, 1.0), k, where))
        extra = set(rel.last_accessed) - set(rel.data)
        if extra:
            out.append(("last_accessed describes uncached keys", sorted(extra), where))
        for k, t in rel.last_accessed.items():
            if not (0 <= t <= rel.calculation_count):
                out.append(("stamp outside [0, count]", k, where))
        return out


def execute(cfg, ops, on_value=None, watch_values=False):
    """Runs the history on the real code.  Returns (rel, failures)."""
    import warnings
    rel, fields = build(cfg)
    tr = rel._tr
    mon = Monitor(rel, watch_values)
    tr.watch = bool(watch_values)
    mon.freeze_all()          # build() ends with freeze_data()
    mon.check_values(-1)
    scalar = cfg["N"] ** 3 * 8
    fails = []
    with warnings.catch_warnings(), np.errstate(all="ignore"):
        warnings.simplefilter("ignore")
        for i, op in enumerate(ops):
            try:
                if op[0] == "get":
                    c0 = rel.calculation_count
                    was = op[1] in rel.data
                    v = rel[op[1]]
                    if was and rel.calculation_count != c0:
                        fails.append(("count changed on a hit", op[1], i))
                    if on_value is not None:
                        on_value(i, op[1], v, rel)
                elif op[0] == "period":
                    rel.h_set("period", op[1])
                elif op[0] == "thr":
                    rel.h_set("thr", int(op[1] * scalar) / 2 ** 30)
                elif op[0] == "imp":
                    rel.h_set(op[1], op[2])
                    if op[2] == 0:
                        mon.freeze([op[1]])
                    else:
                        mon.unfreeze(op[1])
                elif op[0] == "freeze":
                    rel.h_freeze()
                    mon.freeze_all()
                elif op[0] == "cleanup":
                    rel.cleanup_cache()
                elif op[0] == "custom":
                    # time.py:381-382: rel.data[name] = function(rel); var_importance[name] = 0
                    acc = np.zeros(rel.data_shape)
                    for k in op[2]:
                        x = rel[k]
                        if isinstance(x, np.ndarray) and x.shape[-3:] == rel.data_shape and x.dtype.kind == "f":
                            acc = acc + x.reshape((-1,) + rel.data_shape)[0]
                    rel.h_assign(op[1], acc, frozen=True)
                    mon.freeze([op[1]])
                elif op[0] == "load":
                    # the real load_data(sim_data, it) on a two-iteration time series; the iteration alternates
                    # between successive loads of one history (0, 1, 0, ...)
                    nload = sum(1 for o in ops[:i] if o[0] == "load")
                    sim_data = {k: [fields.get(k, fields["alpha"]) * 1.5, fields.get(k, fields["alpha"]) * 2.5]
                                for k in op[1]}
                    rel.h_load(sim_data, nload % 2)
                    mon.freeze(op[1])
                    mon.freeze_all()
            except RecursionError as ex:
                fails.append(("RecursionError", op, i))
                del tr.stack[:]
                del tr.children[:]
                break
            except Exception as ex:  # noqa
                fails.append(("%s: %s" % (type(ex).__name__, str(ex)[:120]), op, i))
                del tr.stack[:]
                del tr.children[:]
                break
            fails += mon.check(i)
            fails += mon.check_values(i)
            for n, v in rel._fd_snapshot.items():
                if not np.array_equal(getattr(rel.fd, n), v, equal_nan=True):
                    fails.append(("the grid object was modified (fd.%s)" % n, op, i))
                    rel._fd_snapshot[n] = np.array(getattr(rel.fd, n), copy=True)
            if tr.failures:
                fails += [f + (i,) for f in tr.failures]
                del tr.failures[:]
            if any(f[0] != "cached entry modified in place" for f in fails):
                break             # (an in-place modification is recorded and the history goes on: its
                #                    consequences are then seen by the value comparison)
    return rel, fails


def fingerprint(fail):
    return {"what": str(fail[0]).split(":")[0], "key": str(fail[1])[:60]}


def correspondence(ctx, pid, nhist, nreq):
    """Random histories on the real code; the Lean driver must reproduce every
    event.  Returns the list of (cfg, ops, rel) for further use."""
    keys = description_keys()
    lines, expect, owner = [], [], []
    runs = []
    stats = {"events": 0, "evictions": 0, "histories": 0, "keys_requested": set(), "misses": 0, "ev_regular": 0,
             "exceeded": 0}
    kinds = {}
    cfgdist = {}
    for h in range(nhist):
        cfg = gen_config(ctx.rng, ctx.tier)
        ops = gen_ops(ctx.rng, ctx.rng.randrange(nreq // 2, nreq + 1), keys)
        rel, fails = execute(cfg, ops)
        tr = rel._tr
        for f in fails:
            ctx.violation("history %d: %s %s" % (h, f[0], f[1:]),
                          {"kind": "history", "cfg": cfg, "ops": ops, "failure": [str(x) for x in f]}, fingerprint(f))
        stats["histories"] += 1
        runs.append((cfg, ops, rel))
        stats["events"] += len(tr.lines)
        stats["evictions"] += tr.evictions
        stats["ev_regular"] += tr.evictions_regular
        stats["exceeded"] += tr.cleanups_exceeded
        stats["misses"] += len(tr.bodies)
        stats["keys_requested"] |= {b[0] for b in tr.bodies}
        for k, n in tr.kinds.items():
            kinds[k] = kinds.get(k, 0) + n
        ck = "N=%d/o%d/%s/p%d/thr%s" % (cfg["N"], cfg["order"], cfg["inputs"], cfg["period"], cfg["thr_scalars"])
        cfgdist[ck] = cfgdist.get(ck, 0) + 1
        lines += tr.lines
        expect += tr.expect
        owner += [h] * len(tr.lines)
    try:
        outs = ctx.run_driver("Driver/C03.lean", lines)
    except Exception as ex:  # noqa
        ctx.obligation("correspondence:driver", False, repr(ex), kind="correspondence")
        return runs
    bad = []
    if len(outs) != len(expect):
        bad.append("driver printed %d lines for %d events" % (len(outs), len(expect)))
    seen = set()
    for i, (o, e) in enumerate(zip(outs, expect)):
        if e is not None and o != e and owner[i] not in seen:
            seen.add(owner[i])
            bad.append("history %d event %d `%s`: real %s | model %s" % (owner[i], i, lines[i], e[:400], o[:400]))
    ctx.cov["%s_histories" % pid] = stats["histories"]
    ctx.cov["%s_events" % pid] = stats["events"]
    ctx.cov["%s_misses" % pid] = stats["misses"]
    ctx.cov["%s_evictions" % pid] = stats["evictions"]
    ctx.cov["%s_evictions_with_threshold_not_exceeded" % pid] = stats["ev_regular"]
    ctx.cov["%s_cleanups_with_threshold_exceeded" % pid] = stats["exceeded"]
    ctx.cov["%s_distinct_keys_computed" % pid] = len(stats["keys_requested"])
    ctx.cov["%s_event_kinds" % pid] = kinds
    ctx.cov["%s_config_distribution" % pid] = dict(sorted(cfgdist.items())[:40])
    if lines:
        j = min(len(lines) - 1, 60)
        ctx.sample({"event": lines[j], "real_and_model": expect[j][:300]})
    ctx.obligation("correspondence: Model/Cache vs AurelCore bookkeeping (%d histories, %d events, %d evictions)"
                   % (stats["histories"], stats["events"], stats["evictions"]),
                   not bad, "; ".join(bad[:3]), kind="correspondence")
    return runs


def rnd_correspondence(ctx, n):
    """rnd64 of the model vs CPython: (int * int) * float, one rounding."""
    cases = []
    for _ in range(n):
        a = ctx.rng.randrange(2, 500)
        sz = ctx.rng.choice((8, 4096, 5832 * 8, 110592, 27 * 13824 * 8, ctx.rng.randrange(1, 10 ** 9)))
        imp = ctx.rng.choice(IMPORTANCE + [ctx.rng.random() * 3, ctx.rng.random() * 1e-4, -0.3])
        cases.append((Fraction(a * sz) * Fraction(imp), a * sz * imp))
    outs = ctx.run_driver("Driver/C03.lean", ["rnd %d %d" % (q.numerator, q.denominator) for q, _ in cases])
    bad = []
    for (q, f), o in zip(cases, outs):
        fr = Fraction(f)
        if o != "rnd %d %d" % (fr.numerator, fr.denominator):
            bad.append("%s: python %s model %s" % (q, fr, o))
    ctx.obligation("correspondence: rnd64 vs CPython int*int*float (%d products)" % n, not bad, "; ".join(bad[:3]),
                   kind="correspondence")


# --------------------------------------------------------------------------
# every quantity a user may supply and freeze, followed by the requests that read it
CONSUMERS = ["st_Weyl_down4", "Kretschmann", "st_Riemann_uddd4", "st_Riemann_uudd4", "st_Ricci_down4", "st_RicciS",
             "Einsteindown4", "Hamiltonian", "Momentumup3", "s_RicciS", "s_Ricci_down3", "eweyl_u_down4", "bweyl_u_down4",
             "Ttrace", "rho_n", "Stressdown3_n", "udown4", "st_covd_udown4", "theta", "dtKtrace", "s_Riemann_uddd3"]


def derived_input_histories(ctx):
    """For every quantity of DERIVED_INPUTS: supply it (value from a fresh instance) as a frozen input next to the
    ordinary inputs, then request the quantities that read it, in a shuffled order, under gentle cache settings; the
    Monitor checks after every request that every frozen entry is still there with the same bytes."""
    found = 0
    for D in DERIVED_INPUTS:
        for vacuum in (False, True):
            if vacuum and D not in ("st_Riemann_down4", "s_Ricci_down3", "gdown4", "gup4"):
                continue
            cfg = {"N": 8, "order": 2, "inputs": "vacuumlike" if vacuum else "tensors", "variant": 1, "vacuum": vacuum,
                   "Lambda": 0.0 if vacuum else 0.3, "tetrad": "quasi-Kinnersley", "period": 4, "thr_scalars": 10 ** 6,
                   "drop": [], "derived": [D]}
            cons = list(CONSUMERS)
            ctx.rng.shuffle(cons)
            ops = [["get", c] for c in cons] + [["get", D]]
            with np.errstate(all="ignore"):
                rel, fails = execute(cfg, ops, watch_values=True)
            ctx.count("derived_input_histories")
            for f in fails[:2]:
                found += 1 if ctx.violation("frozen input %s supplied by the user (vacuum=%s): %s %s" % (D, vacuum, f[0], f[1]),
                                            {"kind": "history", "cfg": cfg, "ops": ops, "failure": [str(x) for x in f]},
                                            fingerprint(f)) else 0
    return found


# --------------------------------------------------------------------------
# the time-series driver: the inputs of a step are frozen before ANY user code or request runs
HEAVY = ["Kretschmann", "st_Weyl_down4", "st_Riemann_uddd4", "Hamiltonian", "Momentumup3", "s_RicciS", "dtKtrace",
         "st_Gamma_udd4", "Einsteindown4", "s_Ricci_down3_bssnok", "eweyl_n_down3", "bweyl_n_down3", "theta", "shear2"]
CHEAP = ["Ktrace", "gammadet", "Kup3", "betadown3", "gdet", "A2", "rho_n", "press_n", "nup4", "s_Gamma_udd3"]


def driver_histories(ctx, n):
    """over_time with custom variables whose functions issue long request chains under aggressive cache settings.
    Oracle (independent of the model): inside every custom function, after its requests, every input of the step is
    still in rel.data with the bytes the user supplied and importance 0; and every built-in column equals what a
    fresh AurelCore holding only that step's (frozen) inputs returns for the single request."""
    aurel, core, _ = aurel_modules()
    found = 0
    for h in range(n):
        rng = ctx.rng
        N, order = 6, 2
        fd = make_fd(N, order)
        inputs = rng.choice(["tensors", "components", "noshift", "vacuumlike"])
        nsteps = rng.randint(1, 3)
        period = rng.choice([1, 2, 3, 5, 10, 20])
        thr = rng.choice([1e-9, 1e-6, 4.0])
        steps = [analytic_fields(fd, v) for v in range(nsteps)]
        keys = [(e, e) if isinstance(e, str) else e for e in INPUT_SETS[inputs]]
        data = {"it": np.arange(nsteps)}
        for k, f in keys:
            data[k] = [steps[i][f].copy() for i in range(nsteps)]
        sums = [{k: checksum(data[k][i]) for k, _ in keys} for i in range(nsteps)]
        fails = []
        chain = [rng.choice(HEAVY) for _ in range(rng.randint(1, 3))] + [rng.choice(CHEAP) for _ in range(rng.randint(2, 8))]
        rng.shuffle(chain)
        calls = {"n": 0}

        def custom(rel):                       # over_time insists on exactly one parameter
            if not any(k in rel.data for k, _ in keys):
                # over_time first tries every custom function on an EMPTY AurelCore (validation of the signature /
                # output); that is not a time step and holds no inputs
                return np.array(rel["Ktrace"]) + 1.0
            i = calls["n"] % nsteps
            calls["n"] += 1
            for k, _ in keys:                   # at the entry of user code the step's inputs are all there, frozen
                if k not in rel.data or rel.var_importance.get(k, 1.0) != 0:
                    fails.append(("input absent or not frozen when the custom function was entered", k, "", i))
            for q in chain:
                rel[q]
                for k, _ in keys:
                    if k not in rel.data:
                        fails.append(("input evicted while a custom variable was being evaluated", k, q, i))
                    elif rel.var_importance.get(k, 1.0) != 0:
                        fails.append(("input not frozen (importance %r) while a custom variable was being evaluated"
                                      % rel.var_importance.get(k, 1.0), k, q, i))
                if fails:
                    break
            return np.array(rel["Ktrace"]) + 1.0

        builtins = [rng.choice(CHEAP), rng.choice(["Hamiltonian", "Ktrace", "gammadet"])]
        cfg = {"inputs": inputs, "nsteps": nsteps, "period": period, "thr": thr, "chain": chain, "builtins": builtins}
        try:
            out = aurel.over_time(dict(data), fd, vars=[{"cust": custom}] + builtins, estimates=[], verbose=False,
                                  clear_cache_every_nbr_calc=period, memory_threshold_inGB=thr)
        except Exception as ex:  # noqa
            fails.append(("over_time raised %r" % ex, "", "", -1))
            out = None
        ctx.count("driver_histories")
        if out is not None and not fails:
            for i in range(nsteps):
                for k, _ in keys:
                    if checksum(data[k][i]) != sums[i][k]:
                        fails.append(("input array of the step altered", k, "", i))
                rel = core.AurelCore(fd, verbose=False)
                for k, _ in keys:
                    rel.data[k] = data[k][i]
                rel.freeze_data()
                for b in builtins + ["Ktrace"]:
                    want = np.asarray(rel[b])
                    got = np.asarray(out[b][i]) if b in out else None
                    if b in out and not np.allclose(got, want, rtol=1e-12, atol=1e-12):
                        fails.append(("column %s of step %d differs from a fresh calculation on the step's inputs "
                                      "(max |diff| %.3g): a default replaced an input" % (b, i, float(np.max(np.abs(got - want)))),
                                      b, "", i))
                want = np.asarray(rel["Ktrace"]) + 1.0
                if not np.allclose(np.asarray(out["cust"][i]), want, rtol=1e-12, atol=1e-12):
                    fails.append(("custom column of step %d differs from Ktrace + 1 of the step's inputs" % i, "cust", "", i))
        for f in fails[:2]:
            found += 1 if ctx.violation("time-series driver (%s, period %d, threshold %g GB, chain %s): %s %s"
                                        % (inputs, period, thr, chain, f[0], f[1]),
                                        {"kind": "driver", "cfg": cfg, "failure": [str(x) for x in f]},
                                        {"site": "over_time", "what": f[0].split(" (")[0][:60]}) else 0
    return found


def run(ctx):
    ctx.trusted += ["Lean 4.33 kernel; axioms propext, Classical.choice, Quot.sound",
                    "Model/Cache.lean is hand-written after core.py:185-323; tied to the real AurelCore by trace replay",
                    "the tracing subclass (tools/props/C03.py) observes __getitem__/cleanup_cache and replaces data and "
                    "last_accessed by logging dict subclasses; CPython dict ordering",
                    "sizes (get_size, sys.getsizeof) are measured on the real objects and fed to the model"]
    ctx.assumptions += [
        "strain: the code computes (exact int age*size) * float importance with one binary64 rounding; the model applies "
        "`rnd` to the exact rational product and the driver uses rnd64 (round-to-nearest-even, 53 bits; overflow and "
        "subnormals not modelled, importance values used: %s incl. the built-in 0.002 and 0.1); rnd64 itself is compared "
        "with CPython float multiplication on random products; the theorems hold for every rounding with rnd 0 = 0 and "
        "rnd x <= 0 for x <= 0, which rnd64 is proven to satisfy" % IMPORTANCE,
        "period >= 1 (the property's quantifier); frozen = importance 0",
        "overwriting a frozen key by the user (load_data / direct assignment) is not an eviction"]
    ctx.prove(MODULE, THEOREMS)
    ctx.forbidden_scan(LEAN_FILES)
    if ctx.tier == "thorough":
        ctx.leanchecker([MODULE])
    rnd_correspondence(ctx, ctx.budget(300, 3000))
    correspondence(ctx, "C03", ctx.budget(40, 200), ctx.budget(30, 60))
    with np.errstate(all="ignore"):
        driver_histories(ctx, ctx.budget(6, 40))
    derived_input_histories(ctx)


def replay(ctx, obj):
    if obj.get("kind") == "driver":
        n = driver_histories(ctx, 20)
        print("replay: %d driver failure(s) now" % n)
        return 1 if n else 0
    if "cfg" not in obj:
        print("replay: not a history replay (kind=%s): %s" % (obj.get("kind"), obj.get("what")))
        return 1
    rel, fails = execute(obj["cfg"], obj["ops"])
    for f in fails:
        print("replay: still failing:", f)
    print("replay: %d failure(s) now" % len(fails))
    return 1 if fails else 0


MANIFEST = {
    "category": "proof",
    "technique": "Lean 4 theorems over a literal hand-written model of AurelCore's cache bookkeeping, tied to the real "
                 "object by replaying recorded nested request traces with the real measured sizes",
    "text": "Proof for every state, period >= 1, threshold, importance map and sizes: clean-up terminates within "
            "|last_accessed| deletions and never raises given the invariant keys(last_accessed) ⊆ keys(data) (which every "
            "operation preserves); it deletes from data and last_accessed in pairs, only entries of positive importance, "
            "and leaves all other values untouched; a present entry of importance 0 keeps its value through every "
            "history of requests, clean-ups and freezes. The model is replayed against the real AurelCore on random "
            "histories (all description keys, period 1-5, thresholds of a few arrays, importance overrides).",
    "note": "Trusted: Lean kernel + standard axioms; the hand model (validated by trace replay: ordered key lists, stamps, "
            "count, evictions after every event); binary64 rounding of the strain product (rnd64, compared with CPython).",
}
