"""C18 — simulation catalogues and name parsing are faithful and stable.

Tie B: Model/Catalog.lean (hand-written) against reading.py on generated
simulation trees + random call sequences (returned dicts and the bytes of
iterations.txt / content.txt after every call), on fuzzed iterations.txt
texts, on collect_overall_iterations inputs, on the range membership test, and
the three regex matchers differentially against Python `re`;
Model/ParFile.lean against the .par parser of parameters() on generated
parameter files.  The trees contain regrids inside a restart (the number of
chunks of a level changes at some iteration, incl. one unnumbered chunk <->
several), variable names that are substrings of other keys of their file, and
(adversarial) variables of one file with different iteration sets.
Search oracle: the generator's own ground truth for the tree it wrote
(variables, ranges, strides, checkpoints), parse-back of the files, fresh
scan of a copy of the final tree.
"""
import contextlib
import glob as _glob
import io
import json
import os
import re
import shutil
import tempfile

import numpy as np

from lib import fw

MODULE = "AurelVerif.Props.C18"
THEOREMS = ["AurelVerif.C18." + t for t in (
    "parse_format_key", "parse_format_file", "parse_format_checkpoint", "parse_h5file_ignores_directory",
    "print_parse_roundtrip", "print_parse_linebreak_hypothesis_is_necessary", "restarts_done_spec",
    "iterations_call_spec", "incremental_eq_fresh", "iterations_idempotent", "stable_criterion", "stable_prefix",
    "scan_level_faithful", "scan_level_faithful_perm", "scan_level_depends_on_set_only", "scan_levels_never_raise",
    "scan_level_stride_is_first_difference", "scan_level_only_own_keys", "discover_exact", "content_cached_eq_scanned", "content_key_roundtrip",
    "overall_faithful", "merge_never_raises", "merge_step_faithful",
    "overall_no_singles_independent_of_membership", "overall_single_inside_range",
    "overall_equal_stride_gap_witness", "exS_stable", "exS0_stable")]
MODULE_B = "AurelVerif.Props.C18b"
THEOREMS_B = ["AurelVerif.C18." + t for t in (
    "par_line_roundtrip", "par_file_roundtrip", "par_split_rejoin", "par_hash_inside_quotes_truncates",
    "par_negative_float_is_string", "par_activethorns_piece_raises", "par_equals_before_colons_raises", "exItems_ok")]
MODULE_C = "AurelVerif.Props.C18c"
THEOREMS_C = ["AurelVerif.C18." + t for t in (
    "selection_is_by_parsed_variable", "restart_data_describes_the_variable",
    "restart_level_lines_describe_the_variable", "restart_data_no_parseable_key",
    "variable_named_like_the_attribute_group_is_catalogued", "variables_of_one_file_are_not_mixed",
    "group_variables_from_one_chunk_file", "group_variables_from_one_chunk_file_any_order")]
FILES = ["AurelVerif/Props/C18c.lean", "AurelVerif/Lemmas/C18Select.lean", "AurelVerif/Props/C18b.lean", "AurelVerif/Lemmas/C18Par.lean", "AurelVerif/Model/ParFile.lean",
         "AurelVerif/Props/C18.lean", "AurelVerif/Lemmas/Catalog.lean", "AurelVerif/Lemmas/CatalogParse.lean",
         "AurelVerif/Lemmas/CatalogIncr.lean", "AurelVerif/Lemmas/CatalogScan.lean",
         "AurelVerif/Model/Catalog.lean", "Driver/C18.lean"]

# --------------------------------------------------------------------------
# encoding of the line protocol


def enc(s):
    return ".".join("%x" % ord(c) for c in s) if s else "-"


def encl(l):
    return ",".join(enc(x) for x in l) if l else "~"


def ints(l):
    return ",".join(str(int(x)) for x in l) if len(l) else "~"


EXC = {"UnboundLocalError": "NameError", "NameError": "NameError", "TypeError": "TypeError",
       "ValueError": "ValueError", "IndexError": "IndexError", "ImportError": "ImportError",
       "KeyError": "KeyError"}


def canon_result(r):
    """canonical text of the dict returned by iterations()/read_iterations()."""
    parts = []
    for k, v in r.items():
        if k == "overall":
            continue
        es = []
        for kk, vv in v.items():
            if kk == "var available":
                es.append(enc(kk) + "=S" + encl(list(vv)))
            else:
                es.append(enc(kk) + "=I" + ints(list(vv)))
        parts.append("%d:%s" % (int(k), ";".join(es)))
    cat = "|".join(parts) if parts else "~"
    if "overall" in r:
        o = r["overall"]
        ov = ";".join(enc(k) + "=" + "/".join(ints(list(seg)) for seg in v) for k, v in o.items()) if o else "~"
    else:
        ov = "none"
    return "ok %s O %s" % (cat, ov)


def canon_vf(vf):
    return ";".join(encl(list(k)) + "=" + encl(list(v)) for k, v in vf.items()) if vf else "~"


def quiet(f, *a, **k):
    with contextlib.redirect_stdout(io.StringIO()):
        return f(*a, **k)


def call(f, *a, **k):
    """(canonical result or 'err Kind', raw result or None)"""
    try:
        r = quiet(f, *a, **k)
        return None, r
    except Exception as ex:  # noqa
        return "err " + EXC.get(type(ex).__name__, type(ex).__name__), None


def file_text(path):
    if not os.path.exists(path):
        return "none"
    return enc(open(path, "rb").read().decode("utf-8"))


# --------------------------------------------------------------------------
# generator of simulation trees

RX_KEY = re.compile(r"([^:]+)::(\S+) it=(\d+) tl=(\d+)( m=0)?( rl=(\d+))?( c=(\d+))?")
# ordinary names; several contain words of the file-name scheme followed by digits (it_32, file_3, rl1, c=2, tl0):
# harmless in a NAME, they must not be picked up by any parser
BENIGN = ["simA", "bhb_q1", "run-07", "test_proc", "X", "lcdm.128", "flrw_init_32", "orbit_7", "unit_3x", "it_5",
          "profile_12", "rl1_tl0", "my_output-2", "chkpt_it_9"]
ADVERSARIAL = ["my restart run", "a->b", "x rl = 3 y", "it's", 'q"uote', "a,b, c", "restart", "new restart 3",
               "3D variables available", "Checkpoints available at its", "out = [5]", "np.arange(1, 2, 3)",
               " === restart 7", "=== restart 2", "a -> 1 -> 2", "rl = 0 at it = [4]", "tab\there", "é_sim",
               "checkpoint.chkpt", "x.file_0.y", "semi;colon", "back\\slash", "output-0003", ".h5", "a b",
               "sim[1]", "a*b", "q?x", "[ab]", "s === restart 7", "Reading iterations in: x", "x rl = 3 [7]"]
SINGLE_VARS = ["alp", "betax", "betay", "betaz", "rho", "vel[0]", "vel[1]", "vel[2]", "gxx", "W", "myvar_2",
               "NaNmask", "dtalp", "trK", "eps", "H", "Psi4r", "kxx", "dtgxx", "T", "rl", "it", "c"]
# names that are substrings of the HDF5 group "Parameters and Global Attributes" every Carpet file contains: a
# substring selection `varkey in k` keeps that non-dataset key (TypeError; fixed by 9f9bdbc: the keys of the
# variable considered are selected by their parsed variable name)
ATTR_SUBSTRING_VARS = ["A", "r", "s", "t", "e", "P", "a", "ram", "G", "u"]
GROUPS = {  # thorn-group -> (THORN, variables)
    "admbase-lapse": ("ADMBASE", ["alp"]),
    "admbase-shift": ("ADMBASE", ["betax", "betay", "betaz"]),
    "hydrobase-vel": ("HYDROBASE", ["vel[0]", "vel[1]", "vel[2]"]),
    "hydrobase-rho": ("HYDROBASE", ["rho"]),
    "mythorn-stuff": ("MYTHORN", ["foo", "bar_1", "baz"]),
    "other_th-grp2": ("OTHER_TH", ["q"]),
    "x1-odd": ("X1", ["it's", "a,b", "w'x\"y"]),
    # a variable whose name is a substring of another key of the same file (variable or thorn part): a
    # substring selection takes the keys of both
    "mythorn-lapses": ("MYTHORN", ["alp", "dtalp"]),
    "hydrobase-ham": ("HYDROBASE", ["H", "rho", "HC"]),
    "admbase-curv2": ("ADMBASE", ["kxx", "dtkxx", "kxxkxx"]),
    "grid-coordinates": ("GRID", ["x", "y", "z", "r"]),
    "mythorn-letters": ("MYTHORN", ["A", "r", "s", "t", "e"]),
    "alpha-lapse": ("ALPHA", ["alp", "ALPHA", "lapse_alp"]),
    "rho_th-rho": ("RHO_TH", ["RHO", "rho", "RHO_TH"]),
}
SUBSTRING_GROUPS = {"mythorn-lapses", "hydrobase-ham", "admbase-curv2", "grid-coordinates", "mythorn-letters",
                    "alpha-lapse", "rho_th-rho"}


def multiples(s, a, b):
    first = -(-a // s) * s
    return list(range(first, b + 1, s))


def gen_windows(rng, nres, s0):
    """iteration windows [A, B] of consecutive restarts on one global output
    grid: contiguous continuation or restart from an earlier checkpoint
    (overlap); every window contains at least one multiple of s0 and reaches
    beyond the previous one."""
    out = []
    a = rng.choice([0, 0, s0, 5 * s0, 1000])
    prev_b = None
    for _ in range(nres):
        first = -(-a // s0) * s0
        n = rng.choice([0, 0, 1, 2, 3, 5, 6])            # 0 -> a single coarse iteration
        b = first + n * s0 + rng.choice([0, 0, s0 - 1, s0 // 2])
        if prev_b is not None and b <= prev_b:
            b = prev_b + s0
        out.append((a, b))
        prev_b = b
        last = (b // s0) * s0
        c = rng.random()
        if c < 0.65:
            a = b + 1
        else:
            a = max(out[0][0], last - rng.choice([0, 1, 2]) * s0)
    return out


def gen_levels(rng, nlev, window, strides, irregular):
    """per level: sorted list of iterations (ground truth)"""
    levels = []
    for l in range(nlev):
        its = multiples(strides[l], window[0], window[1])
        if irregular and len(its) > 2 and rng.random() < 0.5:
            its = sorted(rng.sample(its, rng.randint(2, len(its) - 1)))
        levels.append({"stride": strides[l], "its": its})
    return levels


ATTR_GROUP = "Parameters and Global Attributes"


def nch_at(lv, base, it):
    """number of chunks of a level at iteration `it` (0 = one unnumbered chunk): `lv["chunks"]` =
    [[from_iteration, n], ...] describes regrids inside the restart; without it the simulation-wide `base`."""
    n = base
    for frm, m in lv.get("chunks") or []:
        if it >= frm:
            n = m
    return n


def write_restart(rng, rdir, layout, levels, variables, nchunks, with_m, with_attr, checkpoints, xyz, thin=0):
    """writes the HDF5 files of one restart; returns ground truth.  A level may be regridded inside the
    restart (`chunks`, see nch_at): from some iteration on its keys carry another number of chunks, including
    one unnumbered chunk <-> several.  `thin` (per-variable out_every inside a group file): 1 = the first
    variable in key order (the one iterations() considers) is written at every other iteration only, the others
    at all of them; 2 = the first at all, the others at every other one; 3 = the i-th variable at every (i+2)-th
    iteration.  The ground truth records, per file and variable, the iterations of every level (`files`)."""
    import h5py
    os.makedirs(rdir, exist_ok=True)
    singles, groups = variables
    maxn = max([nchunks] + [m for lv in levels for _, m in (lv.get("chunks") or [])])
    has0 = nchunks == 0 or any(m == 0 for lv in levels for _, m in (lv.get("chunks") or []))
    files = {}

    def keys_for(rec, thorn, var, chunk, step=1):
        """keys of chunk id `chunk` (None = the unnumbered one); every `step`-th iteration of each level"""
        ks = []
        for l, lv in enumerate(levels):
            for j, it in enumerate(lv["its"]):
                if j % step:
                    continue
                n = nch_at(lv, nchunks, it)
                if (chunk is None) != (n == 0) or (chunk is not None and chunk >= n):
                    continue
                k = "%s::%s it=%d tl=0%s rl=%d" % (thorn, var, it, " m=0" if with_m else "", l)
                if chunk is not None:
                    k += " c=%d" % chunk
                ks.append(k)
                rec.setdefault(var, {}).setdefault(l, set()).add(it)
        return ks

    def write(fname, keys, rec):
        with h5py.File(os.path.join(rdir, fname), "w") as f:
            for k in keys:
                f.create_dataset(k, data=np.zeros(1))
            if with_attr:
                f.create_group(ATTR_GROUP)
        files[fname] = {"first_key": min(keys) if keys else None,
                        "vars": {v: {str(l): sorted(its) for l, its in d.items()} for v, d in rec.items()}}

    def step_of(vs, v):
        i = sorted(vs).index(v)
        if len(vs) < 2 or not thin:
            return 1
        return {1: 2 if i == 0 else 1, 2: 1 if i == 0 else 2, 3: i + 2}[thin]

    pre, suf = (".xyz", "") if xyz == 1 else (("", ".xyz") if xyz == 2 else ("", ""))
    mixed = False
    if layout == "onefile":
        ids = ([None] if has0 else []) + list(range(maxn))
        for v in singles:
            ks, rec = [], {}
            for c in ids:
                ks += keys_for(rec, "TH", v, c)
            write("%s%s.h5" % (v, pre), ks, rec)
        for g in groups:
            th, vs = GROUPS[g]
            ks, rec = [], {}
            for v in vs:
                mixed = mixed or step_of(vs, v) > 1
                for c in ids:
                    ks += keys_for(rec, th, v, c, step_of(vs, v))
            write("%s%s.h5" % (g, pre), ks, rec)
    else:
        n = max(1, maxn)
        for c in range(n):
            # the unnumbered chunk of a level (regrid to one component) lives in file_0
            ids = [c] + ([None] if (c == 0 and has0) else [])
            for v in singles:
                ks, rec = [], {}
                for cc in ids:
                    ks += keys_for(rec, "TH", v, cc)
                write("%s%s.file_%d%s.h5" % (v, pre, c, suf), ks, rec)
            for g in groups:
                th, vs = GROUPS[g]
                ks, rec = [], {}
                for v in vs:
                    mixed = mixed or step_of(vs, v) > 1
                    for cc in ids:
                        ks += keys_for(rec, th, v, cc, step_of(vs, v))
                write("%s%s.file_%d%s.h5" % (g, pre, c, suf), ks, rec)
    for it, nfile in checkpoints:
        if nfile == 0:
            open(os.path.join(rdir, "checkpoint.chkpt.it_%d.h5" % it), "w").close()
        else:
            for c in range(nfile):
                open(os.path.join(rdir, "checkpoint.chkpt.it_%d.file_%d.h5" % (it, c)), "w").close()
    allvars = list(singles)
    for g in groups:
        allvars += GROUPS[g][1]
    return {"vars": sorted(set(allvars)), "levels": [lv["its"] for lv in levels],
            "checkpoints": sorted({c[0] for c in checkpoints}), "mixed": mixed, "files": files,
            "regrid": any(lv.get("chunks") for lv in levels)}


def add_regrid(rng, levels, layout, nchunks, reduce_only=False):
    """a regrid inside the restart: from some iteration on a level is cut into another number of chunks
    (Carpet regrids change the component count), including 1 unnumbered chunk <-> several.
    `reduce_only` (one file per chunk AND per-variable iteration sets): the count never grows, so that no
    chunk file appears late and lacks a thinned variable altogether (get_content reads the variables of a
    group from ONE of its chunk files; a chunk file without some variable of its group is not generated)."""
    done = False
    for lv in levels:
        its = lv["its"]
        if len(its) < 2 or rng.random() < 0.3:
            continue
        segs = []
        cur = nchunks
        for frm in sorted(rng.sample(its[1:], min(len(its) - 1, rng.choice([1, 1, 2])))):
            choices = [n for n in (0, 1, 2, 3, 4) if n != cur]
            if cur == 0:
                choices = [2, 3, 2, 4]
            elif rng.random() < 0.35:
                choices = [0]
            if reduce_only:
                choices = [n for n in choices if n < cur]
                if not choices:
                    break
            cur = rng.choice(choices)
            segs.append([frm, cur])
        lv["chunks"] = segs
        done = True
    return done


def gen_sim(ctx, adversarial):
    """plan of a simulation: list of restarts (parameters only, written lazily)."""
    rng = ctx.rng
    name = rng.choice(ADVERSARIAL if adversarial else BENIGN)
    if adversarial and rng.random() < 0.3:
        name = rng.choice(BENIGN) + rng.choice(ADVERSARIAL)
    nres = rng.randint(1, 5)
    layout = rng.choice(["onefile", "proc"])
    grouped = rng.random() < 0.5
    nlev = rng.choice([1, 2, 3, 1, 2, 3, 1, 2, 3, 11, 12])
    nchunks = rng.choice([0, 0, 1, 2, 3, 11]) if layout == "onefile" else rng.choice([1, 2, 3, 11])
    if nlev > 3:                       # many refinement levels (rl >= 10): keep the files small
        nchunks = min(nchunks, 2)
    with_m = rng.random() < 0.3
    xyz = rng.choice([0, 0, 0, 1, 2]) if layout == "proc" else rng.choice([0, 0, 1])
    pool_s = [v for v in SINGLE_VARS]
    rng.shuffle(pool_s)
    pool_g = [g for g in GROUPS if adversarial or g != "x1-odd"]
    rng.shuffle(pool_g)
    if grouped:
        variables = (pool_s[:rng.choice([0, 0, 1])], pool_g[:rng.randint(1, 3)])
    else:
        variables = (pool_s[:rng.randint(1, 4)], [])
    if rng.random() < 0.12:
        # a variable whose name occurs inside "Parameters and Global Attributes"
        variables = ([rng.choice(ATTR_SUBSTRING_VARS)] + variables[0][:rng.choice([0, 1])], variables[1])
    if grouped and rng.random() < 0.35:
        # make sure a group with names that are substrings of other keys is present
        variables = (variables[0], [rng.choice(sorted(SUBSTRING_GROUPS))] + variables[1][:rng.choice([0, 1, 2])])
    # per-variable iteration sets inside one group file (see write_restart)
    thin = rng.choice([1, 1, 2, 3]) if grouped and rng.random() < 0.4 else 0
    restarts = []
    s0 = rng.choice([1, 2, 3, 4, 8, 16, 128]) * 2 ** (min(nlev, 4) - 1)
    strides = [s0]
    for l in range(1, nlev):
        strides.append(max(1, strides[-1] // rng.choice([1, 2])))
    irregular = adversarial and rng.random() < 0.3
    if "NaNmask" in variables[0] and len(variables[0]) == 1:
        variables = (["NaNmask", "alp"], variables[1])
    alt = [v for v in pool_s[4:7] if v != "NaNmask"][:2]
    empties = [rng.random() < 0.06 for _ in range(nres)]
    wins = gen_windows(rng, nres, s0)
    wi = 0
    for r in range(nres):
        window = wins[wi]
        if not empties[r]:
            wi += 1
        levels = gen_levels(rng, nlev, window, strides, irregular)
        mx = max(max(lv["its"]) for lv in levels)
        chk = []
        if rng.random() < 0.5:
            nf = rng.choice([0, 0, 2, 11])
            chk = [(rng.randint(window[0], mx + 3), nf) for _ in range(rng.randint(1, 3))]
        if rng.random() < 0.45:
            add_regrid(rng, levels, layout, nchunks, reduce_only=bool(thin) and layout == "proc")
        restarts.append({"levels": levels, "checkpoints": chk, "empty": empties[r],
                         "variables": variables if rng.random() < 0.9 else (alt, [])})
    numbers = list(range(nres))
    if rng.random() < 0.15:
        numbers = sorted(rng.sample(range(0, 12), nres))
    # directory entries next to the restart directories that are NOT restarts
    decoys = []
    if rng.random() < 0.5:
        decoys = rng.sample(DECOYS, rng.randint(1, 4))
    return {"name": name, "layout": layout, "nchunks": nchunks, "with_m": with_m, "xyz": xyz,
            "decoys": decoys, "active_link": rng.random() < 0.4, "thin": thin,
            "with_attr": rng.random() < 0.8, "restarts": restarts, "numbers": numbers,
            "adversarial": adversarial, "irregular": irregular}


# entries of a simulation directory that must not be taken for restarts
DECOYS = ["SIMFACTORY", "output-abc", "output-", "output-0001.bak", "xoutput-0003", "output-0002-old",
          "log.txt", "output-0007-active", "output-3x", "Output-0004", "output--005", "output-0009 "]


class Tree:
    """A simulation being written to disk + the protocol lines describing it."""

    def __init__(self, ctx, plan, root):
        self.ctx, self.plan, self.root = ctx, plan, root
        self.simpath = root + "/"
        self.simname = plan["name"]
        self.simdir = os.path.join(root, self.simname)
        os.makedirs(self.simdir, exist_ok=True)
        self.param = {"simpath": self.simpath, "simname": self.simname}
        self.truth = {}
        self.added = 0
        self.lines = ["sim %s %s" % (enc(self.simpath), enc(self.simname))]
        for d in plan.get("decoys", []):
            p = os.path.join(self.simdir, d)
            if "." in d:
                open(p, "w").close()
            else:
                os.makedirs(os.path.join(p, self.simname), exist_ok=True)
        self.active = None

    def entries_line(self):
        return "entries %s" % encl(os.listdir(self.simdir))

    def rdir(self, nbr):
        return os.path.join(self.simdir, "output-%04d" % nbr, self.simname)

    def add_restart(self):
        import h5py
        i = self.added
        plan = self.plan
        nbr = plan["numbers"][i]
        r = plan["restarts"][i]
        self.added += 1
        d = self.rdir(nbr)
        if r["empty"]:
            os.makedirs(d, exist_ok=True)
            for it, nf in r["checkpoints"]:
                open(os.path.join(d, "checkpoint.chkpt.it_%d.h5" % it), "w").close()
            self.truth[nbr] = {"vars": [], "levels": [], "checkpoints": sorted({c[0] for c in r["checkpoints"]})}
        else:
            self.truth[nbr] = write_restart(self.ctx.rng, d, plan["layout"], r["levels"], r["variables"],
                                            plan["nchunks"], plan["with_m"], plan["with_attr"],
                                            r["checkpoints"], plan["xyz"], int(plan.get("thin", 0) or 0))
        if plan.get("active_link"):
            # simfactory keeps a symbolic link output-NNNN-active to the running restart
            if self.active and os.path.islink(self.active):
                os.remove(self.active)
            self.active = os.path.join(self.simdir, "output-%04d-active" % nbr)
            if not os.path.lexists(self.active):
                os.symlink("output-%04d" % nbr, self.active)
        out = ["restart %d" % nbr]
        for fn in os.listdir(d):
            keys, ho = [], []
            p = os.path.join(d, fn)
            if fn.endswith(".h5") and os.path.getsize(p) > 0:
                with h5py.File(p, "r") as f:
                    keys = list(f.keys())
                ho = list({RX_KEY.match(k).group(2) for k in keys if RX_KEY.match(k)})
            out.append("file %d %s %s %s" % (nbr, enc(fn), encl(ho), encl(keys)))
        self.lines += out
        return out

    def content_path(self, nbr):
        return os.path.join(self.rdir(nbr), "content.txt")

    def it_path(self):
        return os.path.join(self.simdir, "iterations.txt")


def table_lines(reading):
    out = ["reset"]
    for k, v in reading.known_groups.items():
        out.append("known %s %s" % (enc(k), encl(v)))
    for k, v in reading.aurel_to_ET_varnames.items():
        out.append("a2e %s %s" % (enc(k), encl(v)))
    return out


def run_sequence(ctx, reading, tree, nops, ops=None):
    """executes a random (or given) call sequence on the real code; returns
    (protocol lines, expected outputs, op log)."""
    rng = ctx.rng
    lines, exp, log = [], [], []
    total = len(tree.plan["restarts"])
    tree_lines_sent = 0

    def flush_tree():
        nonlocal tree_lines_sent
        new = tree.lines[tree_lines_sent:]
        tree_lines_sent = len(tree.lines)
        for l in new:
            lines.append(l)
            exp.append("ok")
        lines.append(tree.entries_line())
        exp.append("ok")

    if ops is None:
        ops = []
        tree_added = 0
        ops.append(("add",))
        tree_added += 1
        for _ in range(nops):
            c = rng.random()
            if c < 0.30 and tree_added < total:
                ops.append(("add",))
                tree_added += 1
            elif c < 0.65:
                ops.append(("iter", rng.random() < 0.5))
            elif c < 0.75:
                ops.append(("readit", rng.random() < 0.5))
            elif c < 0.92:
                ops.append(("content", rng.randrange(tree_added), rng.random() < 0.3))
            else:
                ops.append(("dropcache", rng.randrange(tree_added)))
        while tree_added < total and rng.random() < 0.7:
            ops.append(("add",))
            tree_added += 1
        ops.append(("iter", False))
        ops.append(("iter", rng.random() < 0.5))
    for op in ops:
        log.append(list(op))
        if op[0] == "add":
            if tree.added < total:
                tree.add_restart()
            flush_tree()
        elif op[0] in ("iter", "readit"):
            flush_tree()
            f = reading.iterations if op[0] == "iter" else reading.read_iterations
            e, r = call(f, tree.param, skip_last=op[1], verbose=False)
            res = e if e else canon_result(r)
            lines.append("%s %d" % (op[0], 1 if op[1] else 0))
            exp.append(res + " ; " + file_text(tree.it_path()))
        elif op[0] == "content":
            flush_tree()
            nbr = tree.plan["numbers"][min(op[1], tree.added - 1)]
            e, r = call(reading.get_content, tree.param, restart=nbr, overwrite=op[2], verbose=False)
            res = e if e else canon_vf(r)
            cp = tree.content_path(nbr)
            try:
                txt = enc(open(cp).read()) if os.path.exists(cp) else "none"
            except Exception:  # noqa
                txt = "unreadable"
            lines.append("content %d %d" % (nbr, 1 if op[2] else 0))
            exp.append(res + " ; " + txt)
        elif op[0] == "dropcache":
            flush_tree()
            nbr = tree.plan["numbers"][min(op[1], tree.added - 1)]
            cp = tree.content_path(nbr)
            if os.path.exists(cp):
                if rng.random() < 0.5:
                    os.remove(cp)
                else:
                    open(cp, "w").write('{"alp": [')      # invalid JSON -> rescanned
            lines.append("dropcache %d" % nbr)
            exp.append("ok")
    return lines, exp, log


# --------------------------------------------------------------------------
# independent oracle: ground truth of the generator

def expand(seg):
    seg = [int(x) for x in seg]
    if len(seg) == 3:
        a, b, d = seg
        return set(range(a, b + 1, d)) if d > 0 else {a, b}
    return set(seg)


def classify_name(name):
    for tag, words in (("restart-marker", [" === restart "]), ("arrow", ["->"]), ("rl-marker", ["rl = "]),
                       ("vars-marker", ["3D variables available"]), ("chk-marker", ["Checkpoints available at its"]),
                       ("checkpoint-word", ["checkpoint.chkpt"]), ("file-word", [".file_"]),
                       ("newline", ["\n", "\r"]), ("glob", ["[", "*", "?"])):
        if any(w in name for w in words):
            return tag
    return "benign"


def considered_truth(tree, nbr, t):
    """(file, variable considered, {level: iterations}) from the generator's own record of the file named on the
    'Reading iterations in:' line of restart `nbr`: the variable of its first key in alphabetical order"""
    prefix = "Reading iterations in: " + tree.rdir(nbr) + "/"
    try:
        txt = open(tree.it_path()).read()
    except OSError:
        return None
    names = [li[len(prefix):] for li in txt.split("\n") if li.startswith(prefix)]
    names = [n for n in names if n in t.get("files", {})]
    if not names or not t["files"][names[0]]["first_key"]:
        return None
    rec = t["files"][names[0]]
    var = RX_KEY.match(rec["first_key"]).group(2)
    return names[0], var, {int(l): its for l, its in rec["vars"][var].items()}


def oracle_check(ctx, reading, tree, last_result, ops):
    """compare what the real code returned / wrote with the ground truth."""
    import aurel  # noqa
    found = 0
    name_class = classify_name(tree.simname)
    replay = {"kind": "history", "plan": tree.plan, "ops": ops}

    reported = []

    def viol(what, site, extra=None):
        if name_class != "benign":
            # every failure on such a simulation is attributed to the name
            if reported:
                return 0
            reported.append(site)
            fp = {"site": "name-dependence", "name_class": name_class}
            what = "simulation name %r (%s): %s" % (tree.simname, name_class, what)
        else:
            fp = {"site": site, "name_class": name_class}
            fp.update(extra or {})
        return 1 if ctx.violation(what, replay, fp) else 0

    if last_result is None:
        return 0
    kind, res = last_result
    if kind == "err":
        # the final call is iterations(skip_last=False) on a directory with restarts
        anydata = any(t["vars"] or t["checkpoints"] for t in tree.truth.values())
        if anydata and all(t["vars"] or t["checkpoints"] for t in tree.truth.values()):
            found += viol("iterations() raised %s on simulation name %r" % (res, tree.simname), "iterations-raises",
                          {"exc": res})
        return found
    a2e = reading.aurel_to_ET_varnames
    odd_any = False
    for nbr, t in tree.truth.items():
        if nbr not in res:
            found += viol("restart %d missing from the catalogue" % nbr, "restart-missing")
            continue
        e = res[nbr]
        got_vars = []
        for v in e.get("var available", []):
            got_vars += a2e.get(v, [v]) if v in a2e and not (v in t["vars"]) else [v]
        odd = any(not re.fullmatch(r"[A-Za-z0-9_\[\]]+", v) for v in t["vars"])
        odd_any = odd_any or odd
        if not odd and sorted(set(got_vars)) != t["vars"]:
            found += viol("restart %d: variables %r, on disk %r" % (nbr, e.get("var available"), t["vars"]), "vars")
        if sorted(int(x) for x in e.get("checkpoints", [])) != t["checkpoints"]:
            found += viol("restart %d: checkpoints %r, on disk %r" % (nbr, e.get("checkpoints"), t["checkpoints"]),
                          "checkpoints")
        if t["levels"] and t.get("mixed"):
            # the variables of one file have different iteration sets: the lines must describe exactly "the
            # variable considered" = the variable of the first key (h5py lists keys alphabetically) of the file
            # named on this restart's 'Reading iterations in:' line
            ct = considered_truth(tree, nbr, t)
            if ct is None:
                found += viol("restart %d: no 'Reading iterations in:' line naming a file of the restart" % nbr,
                              "considered-file")
                continue
            fname, var, lv = ct
            ctx.count("judged: restarts whose variables of one file have different iteration sets")
            allits = sorted(set().union(*[set(x) for x in lv.values()]))
            ia = [int(x) for x in e.get("its available", [])]
            if ia != [allits[0], allits[-1]]:
                found += viol("restart %d: its available %r, variable considered %r of %s is on disk at [%d, %d]"
                              % (nbr, ia, var, fname, allits[0], allits[-1]), "its-range-considered")
            got_levels = sorted(int(k.split("rl = ")[1]) for k in e if k.startswith("rl = "))
            if got_levels != sorted(lv):
                found += viol("restart %d: levels %r reported, variable considered %r of %s has levels %r"
                              % (nbr, got_levels, var, fname, sorted(lv)), "levels-considered")
            for l, its in sorted(lv.items()):
                got = [int(x) for x in e.get("rl = %d" % l, [])]
                is_ap = len(its) >= 2 and len({b - a for a, b in zip(its, its[1:])}) == 1
                if len(its) == 1:
                    want = its
                elif is_ap:
                    want = [its[0], its[-1], its[1] - its[0]]
                else:
                    continue
                if got != want:
                    found += viol("restart %d rl %d: %r, variable considered %r of %s is on disk at %r"
                                  % (nbr, l, got, var, fname, want), "level-considered")
        elif t["levels"]:
            allits = sorted(set().union(*[set(l) for l in t["levels"]]))
            ia = [int(x) for x in e.get("its available", [])]
            if ia != [allits[0], allits[-1]]:
                found += viol("restart %d: its available %r, on disk [%d, %d]" % (nbr, ia, allits[0], allits[-1]),
                              "its-range")
            for l, its in enumerate(t["levels"]):
                got = [int(x) for x in e.get("rl = %d" % l, [])]
                is_ap = len(its) >= 2 and len({b - a for a, b in zip(its, its[1:])}) == 1
                if len(its) == 1:
                    want = its
                elif is_ap:
                    want = [its[0], its[-1], its[1] - its[0]]
                else:
                    continue   # not an arithmetic progression: (min, max, stride) cannot describe it
                if got != want:
                    found += viol("restart %d rl %d: %r, on disk %r" % (nbr, l, got, want), "level")
    # files parse back to what was returned
    e2, r2 = call(reading.read_iterations, tree.param, verbose=False)
    if e2:
        found += viol("read_iterations raised %s on the file iterations() wrote (simulation %r)" % (e2, tree.simname),
                      "read-back-raises", {"exc": e2})
    else:
        a = canon_result({k: v for k, v in res.items() if k != "overall"})
        if canon_result(r2) != a and not odd_any:
            found += viol("read_iterations differs from what iterations() returned", "read-back-differs")
    # overall = union of the per-restart iteration sets (arithmetic progressions only)
    nlev = max([len(t["levels"]) for t in tree.truth.values()] + [0])
    for l in range(nlev):
        truth, ok = set(), True
        for nbr in sorted(tree.truth):
            t = tree.truth[nbr]
            if l < len(t["levels"]):
                its = t["levels"][l]
                if len(its) >= 2 and len({b - a for a, b in zip(its, its[1:])}) != 1:
                    ok = False
                truth |= set(its)
        if not ok or not truth or tree.plan.get("irregular") or any(t.get("mixed") for t in tree.truth.values()):
            continue
        segs = res.get("overall", {}).get("rl = %d" % l, [])
        got = set().union(*[expand(s) for s in segs]) if len(segs) else set()
        if got != truth:
            has_single = any(l < len(t["levels"]) and len(t["levels"][l]) == 1 for t in tree.truth.values())
            missing = sorted(truth - got)[:5]
            extra = sorted(got - truth)[:5]
            found += viol("overall rl %d = %r does not describe the iterations on disk (missing %r, not on disk %r)"
                          % (l, [[int(x) for x in s] for s in segs], missing, extra), "overall",
                          {"single_iteration_restart": has_single, "drops": bool(missing)})
    return found


def fresh_scan_check(ctx, reading, tree, last_result, ops):
    """incremental == one fresh scan of a copy of the final directory."""
    if last_result is None or last_result[0] == "err":
        return 0
    res = last_result[1]
    if classify_name(tree.simname) != "benign":
        return 0       # reported by oracle_check
    if any(not re.fullmatch(r"[A-Za-z0-9_\[\]]+", v) for t in tree.truth.values() for v in t["vars"]):
        return 0       # variable names outside the Einstein Toolkit alphabet: excluded point, see report
    tmp = tempfile.mkdtemp(prefix="c18f-")
    try:
        dst = os.path.join(tmp, tree.simname)
        shutil.copytree(tree.simdir, dst)
        for dp, _, fns in os.walk(dst):
            for fn in fns:
                if fn in ("iterations.txt", "content.txt"):
                    os.remove(os.path.join(dp, fn))
        param = {"simpath": tmp + "/", "simname": tree.simname}
        e, fresh = call(reading.iterations, param, skip_last=False, verbose=False)
        if e:
            return 0
        if set(res) != set(fresh):
            return 0   # restarts were skipped by skip_last: documented effect
        a = canon_result(res)
        b = canon_result(fresh)
        inc_txt = open(tree.it_path()).read().replace(tree.simpath, "<P>")
        fr_txt = open(os.path.join(dst, "iterations.txt")).read().replace(tmp + "/", "<P>")
        increasing = list(k for k in res if k != "overall") == sorted(k for k in res if k != "overall")
        if increasing and (a != b or inc_txt != fr_txt):
            return 1 if ctx.violation("incremental cataloguing differs from one fresh scan of the final directory",
                                      {"kind": "history", "plan": tree.plan, "ops": ops},
                                      {"site": "incremental-vs-fresh", "name_class": classify_name(tree.simname)}) else 0
    finally:
        shutil.rmtree(tmp, ignore_errors=True)
    return 0


# --------------------------------------------------------------------------
# regex differential

def gen_key(rng):
    thorn = rng.choice(["ADMBASE", "TH", "a b", "x", "ML_BSSN", "t-1", "T.h", "é", ""])
    var = rng.choice(["gxx", "vel[0]", "a", "it=3", "x::y", "w'q", "", "al p", "a\tb", "rho", ":c", "tl=0"])
    it, tl = rng.choice([0, 5, 128, 10 ** 12, 7]), rng.choice([0, 1, 2])
    k = "%s::%s it=%d tl=%d" % (thorn, var, it, tl)
    if rng.random() < 0.5:
        k += " m=0"
    if rng.random() < 0.7:
        k += " rl=%d" % rng.choice([0, 1, 10, 3])
    if rng.random() < 0.6:
        k += " c=%d" % rng.choice([0, 1, 12, 130])
    return mutate(rng, k, " :=itlrcm0159x\t\n") if rng.random() < 0.45 else k


def mutate(rng, s, alphabet):
    for _ in range(rng.choice([1, 1, 2, 3])):
        c = rng.random()
        i = rng.randrange(len(s) + 1)
        if c < 0.35 and s:
            i = min(i, len(s) - 1)
            s = s[:i] + s[i + 1:]
        elif c < 0.7:
            s = s[:i] + rng.choice(alphabet) + s[i:]
        elif s:
            i = min(i, len(s) - 1)
            s = s[:i] + rng.choice(alphabet) + s[i + 1:]
    return s


def gen_fname(rng):
    if rng.random() < 0.25:
        n = "checkpoint.chkpt.it_%d" % rng.choice([0, 5, 354, 123456])
        if rng.random() < 0.5:
            n += ".file_%d" % rng.choice([0, 3, 11, 120])
        n += ".h5"
    else:
        n = ""
        if rng.random() < 0.5:
            n += rng.choice(["admbase", "hydro_base", "ml_bssn", "T1", "a"]) + "-"
        n += rng.choice(["metric", "rho", "vel[0]", "alp", "x", "ml_ham", "axyz", "file_3", "h5", "xyz"])
        if rng.random() < 0.3:
            n += ".xyz"
        if rng.random() < 0.5:
            n += ".file_%d" % rng.choice([0, 7, 12, 345])
        if rng.random() < 0.3:
            n += ".xyz"
        n += ".h5"
    if rng.random() < 0.5:
        n = mutate(rng, n, ".-_xyzh5file0123[]a\n ")
    if rng.random() < 0.4:
        n = rng.choice(["/a/b/", "rel/", "/x.h5/", "/tmp/my restart/", "//", "/a-b/"]) + n
    return n


def real_key(reading, k):
    r = reading.parse_hdf5_key(k)
    if r is None:
        return "nomatch"
    return "K %s %s %d %d %d %s %s" % (enc(r["thorn"]), enc(r["variable"]), r["it"], r["tl"],
                                       1 if r["m"] is not None else 0,
                                       "none" if r["rl"] is None else r["rl"], "none" if r["c"] is None else r["c"])


def real_h5(reading, n):
    r = reading.parse_h5file(n)
    if r is None:
        return "nomatch"
    if "iteration" in r:
        return "CP %d %s" % (r["iteration"], "none" if r["chunk_number"] is None else r["chunk_number"])
    return "F %s %s %d %s %d" % ("none" if r["thorn"] is None else enc(r["thorn"]), enc(r["variable_or_group"]),
                                 1 if r["xyz_prefix"] else 0,
                                 "none" if r["chunk_number"] is None else r["chunk_number"],
                                 1 if r["xyz_suffix"] else 0)


# --------------------------------------------------------------------------
# fuzz of read_iterations / collect_overall_iterations / range membership

TEXT_LINES = [" === restart %d", "3D variables available: ['alpha', 'betaup3']", "3D variables available: ['a']",
              "it = %d -> %d", "rl = %d at it = np.arange(%d, %d, %d)", "rl = %d at it = [%d]",
              "Checkpoints available at its: [%d, %d]", "Checkpoints available at its: []",
              "Reading iterations in: /p/q/alp.h5", "Could not find 3D data in /p/q/", "", "garbage",
              "Reading iterations in: /p/my restart 2/alp.h5", "Reading iterations in: /p/a->b/x.h5",
              "Reading iterations in: /p/ === restart 9/x.h5", "Reading iterations in: /p/rl = 4 [7]/x.h5",
              "Checkpoints available at its: [ 3 ,4 ]", "it = +5 -> 1_0", "rl = 01 at it = [3]", " === restart  6 ",
              "3D variables available: [\"it's\", 'b']", "3D variables available: []", "rl = 2 at it = np.arange(1, 2)"]


def gen_text(rng):
    n = rng.randint(0, 9)
    ls = []
    if rng.random() < 0.8:
        ls.append(" === restart %d" % rng.randint(0, 3))
    for _ in range(n):
        t = rng.choice(TEXT_LINES)
        k = t.count("%d")
        ls.append(t % tuple(rng.randint(0, 40) for _ in range(k)))
    txt = "\n".join(ls) + ("\n" if rng.random() < 0.8 else "")
    if rng.random() < 0.2 and txt:
        txt = mutate(rng, txt, " =->[],'\n\rrl0")
    return txt


def gen_cat(rng):
    """its_available as read_iterations would return it, levels only"""
    nres = rng.randint(1, 5)
    nlev = rng.randint(1, 3)
    cat = {}
    pos = rng.choice([0, 0, 7])
    stride = rng.choice([1, 2, 3, 4, 5, 8, 128])
    for r in range(nres):
        e = {}
        for l in range(nlev):
            if rng.random() < 0.1:
                continue
            c = rng.random()
            s = stride if rng.random() < 0.8 else rng.choice([1, 2, 3, 7])
            if c < 0.35:
                x = pos + rng.choice([0, s, -s, 2 * s, s * rng.randint(0, 4), rng.randint(0, 9)])
                e["rl = %d" % l] = [max(0, x)]
            else:
                n = rng.randint(1, 6)
                e["rl = %d" % l] = [pos, pos + n * s, s]
        cat[r] = e
        pos += rng.choice([0, stride, stride * rng.randint(1, 7)])
    return cat


def cat_line(cat):
    return "ov " + ("|".join("%d:%s" % (r, ";".join(enc(k) + "=" + ints(v) for k, v in e.items()))
                             for r, e in cat.items()) or "~")


# --------------------------------------------------------------------------

def correspondence(ctx, reading):
    nsims = ctx.budget(36, 220)
    lines, exp, meta = table_lines(reading), [], []
    exp += ["ok"] * len(lines)
    dist = {"benign": 0, "adversarial": 0, "ops": {}, "layouts": {}, "restarts": {}, "levels": {}, "errors": {}}
    root = tempfile.mkdtemp(prefix="c18-")
    found = 0
    try:
        for i in range(nsims):
            adversarial = (i % 3 == 2)
            plan = gen_sim(ctx, adversarial)
            sub = os.path.join(root, "s%d" % i)
            os.makedirs(sub)
            tree = Tree(ctx, plan, sub)
            l, e, log = run_sequence(ctx, reading, tree, ctx.rng.randint(3, 12))
            lines += l
            exp += e
            meta += [(i, plan["name"])] * len(l)
            dist["adversarial" if adversarial else "benign"] += 1
            for tag, on in (("restarts with a regrid inside (chunk count of a level changes)",
                             sum(1 for r in plan["restarts"] if any(lv.get("chunks") for lv in r["levels"]))),
                            ("restarts with unnumbered <-> numbered chunks",
                             sum(1 for r in plan["restarts"] if any(
                                 lv.get("chunks") and (plan["nchunks"] == 0 or any(m == 0 for _, m in lv["chunks"]))
                                 for lv in r["levels"]))),
                            ("simulations with per-variable iteration sets in one file", 1 if plan.get("thin") else 0),
                            ("simulations with a variable name that is a substring of another key of its file",
                             1 if any(set(r["variables"][1]) & SUBSTRING_GROUPS for r in plan["restarts"]) else 0),
                            ("simulations with a variable name inside %r" % ATTR_GROUP,
                             1 if plan["with_attr"] and any(
                                 v in ATTR_GROUP for r in plan["restarts"]
                                 for v in list(r["variables"][0]) + [x for g in r["variables"][1] for x in GROUPS[g][1]])
                             else 0)):
                dist[tag] = dist.get(tag, 0) + on
            key = "%s/%s" % (plan["layout"], "grouped" if plan["restarts"][0]["variables"][1] else "single")
            dist["layouts"][key] = dist["layouts"].get(key, 0) + 1
            dist["restarts"][len(plan["restarts"])] = dist["restarts"].get(len(plan["restarts"]), 0) + 1
            nl = len(plan["restarts"][0]["levels"])
            dist["levels"][nl] = dist["levels"].get(nl, 0) + 1
            for o in log:
                dist["ops"][o[0]] = dist["ops"].get(o[0], 0) + 1
            for x in e:
                if x.startswith("err "):
                    k = x.split(" ")[1]
                    dist["errors"][k] = dist["errors"].get(k, 0) + 1
            # independent oracle on the last iterations(skip_last=False) of the sequence
            last = None
            tree2_ops = log
            e2, r2 = call(reading.iterations, tree.param, skip_last=False, verbose=False)
            lines.append("iter 0")
            exp.append((e2 if e2 else canon_result(r2)) + " ; " + file_text(tree.it_path()))
            meta.append((i, plan["name"]))
            last = ("err", e2) if e2 else ("ok", r2)
            found += oracle_check(ctx, reading, tree, last, tree2_ops)
            found += fresh_scan_check(ctx, reading, tree, last, tree2_ops)
            if i < 3:
                ctx.sample({"simulation": plan["name"], "ops": log[:8], "iterations.txt": open(tree.it_path()).read()[:400]
                            if os.path.exists(tree.it_path()) else None})
    finally:
        shutil.rmtree(root, ignore_errors=True)
    nmeta = len(lines) - len(meta)
    # fuzzed texts, overall inputs, range membership
    ntext = ctx.budget(400, 4000)
    for _ in range(ntext):
        txt = gen_text(ctx.rng)
        d = tempfile.mkdtemp(prefix="c18t-")
        try:
            os.makedirs(os.path.join(d, "s"))
            with open(os.path.join(d, "s", "iterations.txt"), "w", newline="") as f:
                f.write(txt)
            e, r = call(reading.read_iterations, {"simpath": d + "/", "simname": "s"}, verbose=False)
        finally:
            shutil.rmtree(d, ignore_errors=True)
        lines.append("readtxt " + enc(txt))
        exp.append(e if e else canon_result(r))
    nov = ctx.budget(600, 6000)
    for _ in range(nov):
        cat = gen_cat(ctx.rng)
        lines.append(cat_line(cat))
        import copy
        e, r = call(reading.collect_overall_iterations, copy.deepcopy(cat), False)
        if e:
            exp.append(e)
        else:
            o = r["overall"]
            exp.append("ok " + (";".join(enc(k) + "=" + "/".join(ints(list(s)) for s in v) for k, v in o.items()) or "~"))
    nlin = ctx.budget(1500, 15000)
    for _ in range(nlin):
        a = ctx.rng.choice([0, 0, 1, 5, 1000, 2 ** 40])
        n = ctx.rng.choice([0, 1, 2, 3, 4, 5, 7, 8, 10, 11, 13, 16, 128, 49, 50, 99])
        m = ctx.rng.randint(0, 60)
        b = a + ctx.rng.choice([m, m * max(n - 1, 1), m * n])
        if n > 1 and ctx.rng.random() < 0.7:
            i = ctx.rng.randrange(n)
            x = a + round(i * (b - a) / (n - 1)) + ctx.rng.choice([0, 0, 0, 1, -1])
        else:
            x = a + ctx.rng.randint(-2, b - a + 2)
        if ctx.rng.random() < 0.1:
            n = -n
        lines.append("rng %d %d %d %d" % (x, a, b, n))
        try:
            exp.append("1" if x in range(int(a), int(b) + 1, int(n)) else "0")
        except ValueError:
            exp.append("err ValueError")
    dist["read_iterations_texts"] = ntext
    dist["overall_inputs"] = nov
    dist["range_queries"] = nlin
    ctx.cov["correspondence_distribution"] = dist
    try:
        outs = ctx.run_driver("Driver/C18.lean", lines)
    except Exception as ex:  # noqa
        ctx.obligation("correspondence:driver", False, repr(ex), kind="correspondence")
        return found
    bad = []
    for j, (l, e, o) in enumerate(zip(lines, exp, outs)):
        if e != o:
            bad.append("line %d `%s`: real `%s` model `%s`" % (j, l[:80], e[:300], o[:300]))
    if len(outs) != len(lines):
        bad.append("driver printed %d lines for %d ops" % (len(outs), len(lines)))
    ctx.cov["correspondence_lines"] = len(lines)
    ctx.obligation("correspondence: Model/Catalog vs reading.py (%d simulations, %d protocol lines)"
                   % (dist["benign"] + dist["adversarial"], len(lines)), not bad, " ;; ".join(bad[:4]),
                   kind="correspondence")
    if bad:
        os.makedirs("/tmp/c18-work", exist_ok=True)
        with open("/tmp/c18-work/last_mismatch.txt", "w") as f:
            f.write("\n".join(bad[:50]))
    return found


def regex_differential(ctx, reading):
    n = ctx.budget(12000, 100000)
    lines, exp = [], []
    for i in range(n):
        if i % 2 == 0:
            k = gen_key(ctx.rng)
            if not k or " " in enc(k):
                continue
            lines.append("key " + enc(k))
            exp.append(real_key(reading, k))
        else:
            f = gen_fname(ctx.rng)
            lines.append("h5 " + enc(f))
            exp.append(real_h5(reading, f))
    try:
        outs = ctx.run_driver("Driver/C18.lean", lines)
    except Exception as ex:  # noqa
        ctx.obligation("regex:driver", False, repr(ex), kind="correspondence")
        return
    bad = ["`%s`: re `%s` model `%s`" % (l, e, o) for l, e, o in zip(lines, exp, outs) if e != o]
    nm = sum(1 for e in exp if e == "nomatch")
    ctx.cov["regex_cases"] = len(lines)
    ctx.cov["regex_nomatch"] = nm
    ctx.obligation("regex matchers vs Python re (%d names, %d non-matching)" % (len(lines), nm), not bad,
                   " ;; ".join(bad[:5]), kind="correspondence")


# --------------------------------------------------------------------------
# known finding: get_content reads the variables of a group from ONE chunk file

CHUNK_WITNESSES = {
    # one file per process; process files 1 and 2 appear with the regrid at iteration 48, when only H is written
    # (HC and rho have a larger out_every): whether variables are lost depends on which chunk file the directory
    # listing yields first
    "late_chunk_files": {"file_0": {"H": [32, 40, 48, 56], "HC": [32], "rho": [32]},
                         "file_1": {"H": [48, 56]}, "file_2": {"H": [48, 56]}},
    # the same mechanism independent of the listing order: each chunk file lacks a variable the other one holds
    "disjoint_chunk_files": {"file_0": {"H": [32, 40, 48, 56], "HC": [32, 48]},
                             "file_1": {"H": [48, 56], "rho": [48]}},
}


def build_chunk_witness(root, which):
    """writes the witness simulation (one restart, group HYDROBASE 'hydrobase-ham'); returns (param, restart
    directory, variables on disk)"""
    import h5py
    name = "chunks_" + which
    d = os.path.join(root, name, "output-0000", name)
    os.makedirs(d)
    on_disk = set()
    for fn, vs in CHUNK_WITNESSES[which].items():
        c = int(fn.split("_")[1])
        with h5py.File(os.path.join(d, "hydrobase-ham.%s.h5" % fn), "w") as f:
            for v, its in vs.items():
                on_disk.add(v)
                for it in its:
                    f.create_dataset("HYDROBASE::%s it=%d tl=0 rl=0 c=%d" % (v, it, c), data=np.zeros(1))
            f.create_group(ATTR_GROUP)
    return {"simpath": root + "/", "simname": name}, d, sorted(on_disk)


def chunk_witness_lines(param, d):
    """protocol lines describing the witness directory (listing order as the OS gives it)"""
    import h5py
    out = ["sim %s %s" % (enc(param["simpath"]), enc(param["simname"])), "restart 0"]
    for fn in os.listdir(d):
        keys, ho = [], []
        if fn.endswith(".h5"):
            with h5py.File(os.path.join(d, fn), "r") as f:
                keys = list(f.keys())
            ho = list({RX_KEY.match(k).group(2) for k in keys if RX_KEY.match(k)})
        out.append("file 0 %s %s %s" % (enc(fn), encl(ho), encl(keys)))
    out.append("entries %s" % encl(os.listdir(os.path.join(param["simpath"], param["simname"]))))
    return out


def judge_chunk_witness(reading, param, on_disk):
    """(variables get_content reports, variables iterations() reports in ET names) on the real code"""
    e, vf = call(reading.get_content, param, restart=0, overwrite=True, verbose=False)
    got = sorted({v for k in vf for v in k}) if not e else e
    e2, r = call(reading.iterations, param, skip_last=False, verbose=False)
    a2e = reading.aurel_to_ET_varnames
    got2 = e2 if e2 else sorted({x for v in r[0].get("var available", []) for x in a2e.get(v, [v])})
    return got, got2


def chunk_variable_witnesses(ctx, reading):
    """KNOWN FINDING (kind group_variables_from_one_chunk_file), rebuilt and re-run on the real code on every
    run; the witness directories also go through the model (correspondence)."""
    root = tempfile.mkdtemp(prefix="c18k-")
    lines, exp, res = table_lines(reading), [], {}
    exp += ["ok"] * len(lines)
    try:
        for which in CHUNK_WITNESSES:
            param, d, on_disk = build_chunk_witness(root, which)
            listing = [fn for fn in os.listdir(d) if fn.endswith(".h5")]
            got, got2 = judge_chunk_witness(reading, param, on_disk)
            wl = chunk_witness_lines(param, d)
            lines += wl
            exp += ["ok"] * len(wl)
            # the calls above wrote content.txt / iterations.txt; the model starts from the same empty state
            for fn in ("content.txt",):
                if os.path.exists(os.path.join(d, fn)):
                    os.remove(os.path.join(d, fn))
            it_path = os.path.join(root, param["simname"], "iterations.txt")
            if os.path.exists(it_path):
                os.remove(it_path)
            e, vf = call(reading.get_content, param, restart=0, overwrite=True, verbose=False)
            lines.append("content 0 1")
            exp.append((e if e else canon_vf(vf)) + " ; " + enc(open(os.path.join(d, "content.txt")).read()))
            e2, r2 = call(reading.iterations, param, skip_last=False, verbose=False)
            lines.append("iter 0")
            exp.append((e2 if e2 else canon_result(r2)) + " ; " + file_text(it_path))
            res[which] = {"listing order": listing, "on disk": on_disk, "get_content": got, "iterations 'var available' (ET names)": got2}
            if got != on_disk or got2 != on_disk:
                ctx.violation("get_content reads the variables of group hydrobase-ham from ONE chunk file (%s first): "
                              "variables %r catalogued, %r on disk (witness %s)" % (listing[0], got, on_disk, which),
                              {"kind": "group_chunks", "witness": which},
                              {"kind": "group_variables_from_one_chunk_file"})
    finally:
        shutil.rmtree(root, ignore_errors=True)
    ctx.cov["known finding group_variables_from_one_chunk_file: witnesses on the real code"] = res
    try:
        outs = ctx.run_driver("Driver/C18.lean", lines)
    except Exception as ex:  # noqa
        ctx.obligation("chunk-witness:driver", False, repr(ex), kind="correspondence")
        return
    bad = ["`%s`: real `%s` model `%s`" % (l[:60], e[:300], o[:300]) for l, e, o in zip(lines, exp, outs) if e != o]
    ctx.obligation("correspondence: Model/Catalog vs reading.py on the witnesses of the known finding "
                   "group_variables_from_one_chunk_file", not bad and len(outs) == len(lines), " ;; ".join(bad[:4]),
                   kind="correspondence")


def excluded_points(ctx, reading):
    """Corpus of former findings (all fixed in the code; must pass now):
    simulation names containing the markers the classifier looks for, glob
    metacharacters, 'checkpoint.chkpt'; single-iteration restarts next to a
    range; plus the sentinel for skip_last."""
    found = 0
    names = [("a->b", "arrow"), ("x rl = 3 y", "rl-marker"), ("s === restart 7", "restart-marker"),
             ("3D variables available", "vars-marker"), ("Checkpoints available at its", "chk-marker"),
             ("my restart run", "benign"), ("sim[1]", "glob"), ("checkpoint.chkpt", "checkpoint-word"),
             ("x.file_0.y", "file-word")]
    root = tempfile.mkdtemp(prefix="c18x-")
    res = {}
    try:
        for i, (name, cls) in enumerate(names):
            plan = {"name": name, "layout": "onefile", "nchunks": 0, "with_m": False, "xyz": 0, "with_attr": True,
                    "numbers": [0, 1], "adversarial": True,
                    "restarts": [{"levels": [{"stride": 2, "its": [0, 2, 4]}], "checkpoints": [(4, 0)], "empty": False,
                                  "variables": (["alp"], [])},
                                 {"levels": [{"stride": 2, "its": [6, 8]}], "checkpoints": [(8, 2)], "empty": False,
                                  "variables": (["alp"], [])}]}
            sub = os.path.join(root, "x%d" % i)
            os.makedirs(sub)
            tree = Tree(ctx, plan, sub)
            ops = [("add",), ("iter", False), ("add",), ("iter", False)]
            l, e, log = run_sequence(ctx, reading, tree, 0, ops=ops)
            e2, r2 = call(reading.iterations, tree.param, skip_last=False, verbose=False)
            last = ("err", e2) if e2 else ("ok", r2)
            res[name] = e2 if e2 else "ok"
            found += oracle_check(ctx, reading, tree, last, log)
        # excluded point of T2 (line break inside the path): recorded, not judged
        plan = {"name": "a\n->b", "layout": "onefile", "nchunks": 0, "with_m": False, "xyz": 0, "with_attr": True,
                "numbers": [0], "adversarial": True,
                "restarts": [{"levels": [{"stride": 2, "its": [0, 2, 4]}], "checkpoints": [], "empty": False,
                              "variables": (["alp"], [])}]}
        sub = os.path.join(root, "n0")
        os.makedirs(sub)
        try:
            tree = Tree(ctx, plan, sub)
            run_sequence(ctx, reading, tree, 0, ops=[("add",), ("iter", False)])
            e2, r2 = call(reading.iterations, tree.param, skip_last=False, verbose=False)
            res["path with line break 'a\\n->b' (excluded by T2), second iterations()"] = e2 if e2 else "ok"
        except OSError as ex:
            res["path with line break"] = "not creatable: %r" % ex
        # single iteration next to a range (formerly np.linspace): restart from a checkpoint
        # inside the previous range that wrote a single iteration, and the converse
        for j, (its0, its1) in enumerate([([0, 2, 4, 6], [4]), ([640], [512, 640, 768, 896, 1024])]):
            plan = {"name": "simA", "layout": "onefile", "nchunks": 0, "with_m": False, "xyz": 0, "with_attr": True,
                    "numbers": [0, 1], "adversarial": False,
                    "restarts": [{"levels": [{"stride": 2, "its": its0}], "checkpoints": [], "empty": False,
                                  "variables": (["alp"], [])},
                                 {"levels": [{"stride": 2, "its": its1}], "checkpoints": [], "empty": False,
                                  "variables": (["alp"], [])}]}
            sub = os.path.join(root, "l%d" % j)
            os.makedirs(sub)
            tree = Tree(ctx, plan, sub)
            l, e, log = run_sequence(ctx, reading, tree, 0, ops=[("add",), ("add",), ("iter", False)])
            e2, r2 = call(reading.iterations, tree.param, skip_last=False, verbose=False)
            res["overall %r + %r" % (its0, its1)] = e2 if e2 else repr(
                [[int(x) for x in sg] for sg in r2["overall"].get("rl = 0", [])])
            found += oracle_check(ctx, reading, tree, ("err", e2) if e2 else ("ok", r2), log)
        # restart directories that APPEAR out of numerical order (restart 1 copied back from an archive after restart 2
        # was catalogued): every restart on disk is catalogued, and 'overall' describes the iterations on disk
        # (the merge followed the order of cataloguing and set the end of a range to that of the restart catalogued
        # last; repaired in /repo, see known_findings.json).  Judged against the generator's ground truth only: the
        # model's histories add restarts in increasing order.
        for j, order in enumerate([[0, 2, 1], [1, 0, 2]]):
            its = {0: [0, 16, 32, 48], 1: [64, 80, 96], 2: [112, 128, 144, 160]}
            plan = {"name": "simO", "layout": "onefile", "nchunks": 0, "with_m": False, "xyz": 0, "with_attr": True,
                    "numbers": order, "adversarial": False,
                    "restarts": [{"levels": [{"stride": 16, "its": its[n]}], "checkpoints": [], "empty": False,
                                  "variables": (["alp"], [])} for n in order]}
            sub = os.path.join(root, "o%d" % j)
            os.makedirs(sub)
            tree = Tree(ctx, plan, sub)
            tree.add_restart()
            tree.add_restart()
            call(reading.iterations, tree.param, skip_last=False, verbose=False)
            tree.add_restart()
            log = [["add"], ["add"], ["iter", False], ["add"], ["iter", False]]
            e2, r2 = call(reading.iterations, tree.param, skip_last=False, verbose=False)
            res["restarts appearing in the order %r: overall" % order] = e2 if e2 else repr(
                [[int(x) for x in sg] for sg in r2["overall"].get("rl = 0", [])])
            found += oracle_check(ctx, reading, tree, ("err", e2) if e2 else ("ok", r2), log)
            e3, r3 = call(reading.read_iterations, tree.param, skip_last=False, verbose=False)
            if e3 or sorted(k for k in r3 if k != "overall") != [0, 1, 2]:
                found += 1 if ctx.violation("read_iterations() after restarts appeared in the order %r lists %s, on disk [0, 1, 2]"
                                            % (order, e3 or sorted(k for k in r3 if k != "overall")),
                                            {"kind": "history", "plan": plan, "ops": log + [["readit", False]]},
                                            {"site": "restart-missing", "name_class": "benign"}) else 0
        # regrids inside a restart (fixed by efae800): 2 -> 3 chunks at iteration 6; one unnumbered chunk ->
        # several; several -> one unnumbered; with a second level that is not regridded
        for j, (base, segs, layout) in enumerate([(2, [[6, 3]], "onefile"), (0, [[4, 3]], "onefile"),
                                                  (3, [[2, 0], [6, 2]], "onefile"), (2, [[6, 3]], "proc"),
                                                  (1, [[4, 0]], "proc")]):
            plan = {"name": "regrid_%d" % j, "layout": layout, "nchunks": base, "with_m": False, "xyz": 0,
                    "with_attr": True, "numbers": [0], "adversarial": False,
                    "restarts": [{"levels": [{"stride": 2, "its": [0, 2, 4, 6, 8], "chunks": segs},
                                             {"stride": 1, "its": list(range(0, 9))}],
                                  "checkpoints": [], "empty": False, "variables": (["alp", "dtalp"], [])}]}
            sub = os.path.join(root, "g%d" % j)
            os.makedirs(sub)
            tree = Tree(ctx, plan, sub)
            l, e, log = run_sequence(ctx, reading, tree, 0, ops=[("add",), ("iter", False)])
            e2, r2 = call(reading.iterations, tree.param, skip_last=False, verbose=False)
            res["regrid %s base %d chunks, then %r" % (layout, base, segs)] = e2 if e2 else repr(
                [int(x) for x in r2[0].get("rl = 0", [])])
            found += oracle_check(ctx, reading, tree, ("err", e2) if e2 else ("ok", r2), log)
        # selection of the variable considered (fixed by 9f9bdbc): a variable whose name occurs in the attributes
        # group name; one group file whose variables have different iteration sets and names that are substrings
        # of each other / of the thorn name
        for j, (variables, thin) in enumerate([((["A"], []), 0), ((["r", "alp"], []), 0), (([], ["mythorn-lapses"]), 1),
                                               (([], ["hydrobase-ham"]), 1), (([], ["grid-coordinates"]), 3),
                                               (([], ["mythorn-letters"]), 1), (([], ["alpha-lapse"]), 2)]):
            plan = {"name": "select_%d" % j, "layout": "onefile", "nchunks": 0, "with_m": False, "xyz": 0,
                    "with_attr": True, "numbers": [0], "adversarial": False, "thin": thin,
                    "restarts": [{"levels": [{"stride": 2, "its": [0, 2, 4, 6, 8]}, {"stride": 1, "its": list(range(9))}],
                                  "checkpoints": [], "empty": False, "variables": variables}]}
            sub = os.path.join(root, "v%d" % j)
            os.makedirs(sub)
            tree = Tree(ctx, plan, sub)
            l, e, log = run_sequence(ctx, reading, tree, 0, ops=[("add",), ("iter", False)])
            e2, r2 = call(reading.iterations, tree.param, skip_last=False, verbose=False)
            res["selection %r thin=%d" % (variables, thin)] = e2 if e2 else repr(
                [int(x) for x in r2[0].get("rl = 0", [])])
            found += oracle_check(ctx, reading, tree, ("err", e2) if e2 else ("ok", r2), log)
        # documented effect of skip_last: the last restart is not catalogued
        plan = {"name": "simB", "layout": "onefile", "nchunks": 0, "with_m": False, "xyz": 0, "with_attr": True,
                "numbers": [0, 1], "adversarial": False,
                "restarts": [{"levels": [{"stride": 2, "its": [0, 2, 4]}], "checkpoints": [], "empty": False,
                              "variables": (["alp"], [])},
                             {"levels": [{"stride": 2, "its": [6, 8]}], "checkpoints": [], "empty": False,
                              "variables": (["alp"], [])}]}
        sub = os.path.join(root, "k0")
        os.makedirs(sub)
        tree = Tree(ctx, plan, sub)
        run_sequence(ctx, reading, tree, 0, ops=[("add",), ("add",)])
        e2, r2 = call(reading.iterations, tree.param, skip_last=True, verbose=False)
        got = e2 if e2 else sorted(k for k in r2 if k != "overall")
        res["skip_last=True on restarts 0,1"] = repr(got)
        if got != [0]:
            found += 1 if ctx.violation("iterations(skip_last=True) on restarts [0, 1] catalogued %r, expected [0]" % (got,),
                                        {"kind": "history", "plan": plan, "ops": [["add"], ["add"], ["iter", True]]},
                                        {"site": "skip_last", "name_class": "benign"}) else 0
    finally:
        shutil.rmtree(root, ignore_errors=True)
    ctx.cov["excluded_points_real_code"] = res
    return found


PAR_THORNS = ["CoordBase", "Carpet", "IOHDF5", "ADMBase", "A", "ML_BSSN", "Cactus", "ActiveThorns", "a b", "x-y",
              "T:h", "T:", "", "Time", "thorn#1"]
PAR_VARS = ["out_every", "verbose", "timelevels", "evolution_method", "one_file_per_group", "dtfac", "cctk_itlast",
            "out_dir", "a::b", "my var", "simname", "xmax_extra", "v", "ActiveThorns", "datapath", "ghost_size", ":v",
            "w::", "initial_data"]
PAR_VALUES = ["7", "-12", "+3", "0.5", "1e-5", "-1.5e-3", "+2.5e+2", "1.", ".5", "1e5", "5e", "e5", "1-2", "-+5", "--5",
              "1.2.3", "1e5e", "12e", "e", '"hello"', '"a=b::c"', '"x # y"', "yes", "no", '"$parfile"', '"a"b"c"', '""',
              '"', "1_0", "0x10", "1 2", "", '"unterminated', "3.0e0", "007", "-0", "1e+", "+", "-", ".", "-.5", "5.e2",
              ".e2", "1ee2", "1e-3", "-1e5", "1e+5", "+1e-5", "2.50", "100000000000000000000000", "1e400", "-.e1",
              '"ActiveThorns"', '"a b  c"', "Carpet::x", "a=b", "=", "e-", "+e1", "1+", "1.e", "1e.5", "1.-"]
PAR_FORMS = ["%s::%s = %s", "%s::%s=%s", "  %s :: %s   =   %s  ", "%s::%s = %s # comment with :: and = in it",
             "%s::%s\t=\t%s", "%s::%s = %s#c", "%s ::%s= %s"]
PAR_OTHER = ["# full comment", "", "   ", 'ActiveThorns = "A B  C"', "ActiveThorns = A", 'ActiveThorns="X"  # c',
             "ActiveThorns::x = 1", "x = 1 :: y", "junk line", "a::b", "Active Thorns", 'ActiveThorns = "CoordBase Carpet',
             'ActiveThorns = "', "!DESC \"a::b = c\"", "::", "=", "::=", "=::", " :: = ", "#", "a::b#=1",
             'ActiveThorns = "a::b"', "ActiveThorns"]
PAR_DERIVED = {"Lx", "Ly", "Lz", "Nx", "Ny", "Nz", "xmin", "ymin", "zmin", "max_refinement_levels", "list_of_thorns"}
PAR_NAMES = ["p", "simA", "run-07", "a b", "sim[1]", "it's", "q?x", "a*b", "x::y=1", "my#sim"]


def _par_value_raises(v):
    v = v.strip()
    dv = v.replace('.', '', 1).replace('-', '', 1).replace('+', '', 1).replace('e', '', 1)
    if not dv.isdigit():
        return False
    try:
        float(v) if ('.' in v or 'e' in v) else int(v)
        return False
    except ValueError:
        return True


PAR_VALUES_SAFE = [v for v in PAR_VALUES if not _par_value_raises(v)]
PAR_THORNS_SAFE = [t for t in PAR_THORNS if t != "ActiveThorns"]
PAR_OTHER_SAFE = [o for o in PAR_OTHER if o not in ("ActiveThorns = A", "ActiveThorns::x = 1", "x = 1 :: y", "=::",
                                                     "ActiveThorns")]


def gen_par(rng):
    """most files parse (so that every line is reached); one in four may contain a line that raises"""
    ls = []
    safe = rng.random() < 0.75
    values, thorns, other = ((PAR_VALUES_SAFE, PAR_THORNS_SAFE, PAR_OTHER_SAFE) if safe
                             else (PAR_VALUES, PAR_THORNS, PAR_OTHER))
    for _ in range(rng.randint(0, 8)):
        if rng.random() < 0.7:
            ls.append(rng.choice(PAR_FORMS) % (rng.choice(thorns), rng.choice(PAR_VARS), rng.choice(values)))
        else:
            ls.append(rng.choice(other))
    nl = rng.choice(["\n", "\n", "\n", "\r\n", "\r"])
    grid = ["CoordBase::%smin = -1.0" % c for c in "xyz"] + ["CoordBase::%smax = 1.0" % c for c in "xyz"] + \
           ["CoordBase::d%s = 0.5" % c for c in "xyz"]
    return nl.join(ls + grid) + (nl if rng.random() < 0.8 else "")


PAR_CLASH = ["verbose", "timelevels", "evolution_method", "out_every", "one_file_per_group"]
CLEAN_THORNS = ["CoordBase", "Carpet", "IOHDF5", "ADMBase", "A", "a b", "x-y", "Time", "T:h", "x=y"]
CLEAN_VARS = ["out_every", "verbose", "dtfac", "out_dir", "a::b", "my var", "v", "ghost_size", "initial_data",
              "timelevels", "w::"]
CLEAN_VALUES = [("7", 7), ("-12", -12), ("+3", 3), ("007", 7), ("-0", 0), ("100000000000000000000000", 10 ** 23),
                ("0.5", 0.5), ("1e-5", 1e-5), ("2.5e+2", 250.0), ("-1.0", -1.0), ("1.", 1.0), ("-.5", -0.5),
                ("3.0e0", 3.0), ("1e5", 1e5), ('"hello"', "hello"), ('"a=b::c"', "a=b::c"), ('""', ""),
                ('"$parfile"', "$parfile"), ('"a b  c"', "a b  c"), ('" lead"', " lead"), ('"1.5"', "1.5"),
                ("yes", "yes"), ("no", "no"), ("Carpet::x", "Carpet::x"), ("a=b", "a=b"), ("1_0", "1_0")]


def gen_par_clean(rng):
    """a well-formed parameter file (inside the hypotheses of par_file_roundtrip, plus plain floats) and the
    dictionary entries it must produce = independent ground truth"""
    ls, want = [], {}
    for _ in range(rng.randint(1, 8)):
        c = rng.random()
        if c < 0.75:
            th, var = rng.choice(CLEAN_THORNS), rng.choice(CLEAN_VARS)
            txt, val = rng.choice(CLEAN_VALUES)
            form = rng.choice(["%s::%s = %s", "%s::%s=%s", "  %s :: %s   =   %s  ", "%s::%s\t=\t%s",
                               "%s::%s = %s # comment with :: and = in it", "%s::%s = %s#c"])
            ls.append(form % (th, var, txt))
            want[th + "::" + var if var in PAR_CLASH else var] = val
        else:
            ls.append(rng.choice(["# full comment", "", "   ", "  # x::y = 3", "#"]))
    grid = ["CoordBase::%smin = -1.0" % c for c in "xyz"] + ["CoordBase::%smax = 1.0" % c for c in "xyz"] + \
           ["CoordBase::d%s = 0.5" % c for c in "xyz"]
    return "\n".join(ls + grid) + "\n", want


def par_oracle(ctx, name, txt, want, e, r):
    """ground truth of the generator for a well-formed file"""
    replay = {"kind": "par", "name": name, "text": txt, "want": {k: [type(v).__name__, repr(v)] for k, v in want.items()}}
    if e:
        return 1 if ctx.violation("parameters() raised %s on a well-formed parameter file" % e, replay,
                                  {"site": "par-raises", "exc": e}) else 0
    for k, v in want.items():
        got = r.get(k, None)
        if type(got) is not type(v) or got != v:
            return 1 if ctx.violation("parameters(): %r comes back as %r, the file says %r" % (k, got, v), replay,
                                      {"site": "par-value", "kind": type(v).__name__, "got": type(got).__name__}) else 0
    return 0


def canon_par_real(r):
    es = []
    for k, v in r.items():
        if k in PAR_DERIVED:
            continue
        if isinstance(v, bool) or not isinstance(v, (int, float, str)):
            es.append(enc(k) + "=?" + repr(v))
        elif isinstance(v, int):
            es.append(enc(k) + "=I%d" % v)
        elif isinstance(v, float):
            es.append(enc(k) + "=F" + v.hex())
        else:
            es.append(enc(k) + "=S" + enc(v))
    return "ok " + (";".join(es) or "~") + " T " + ",".join(sorted(enc(t) for t in set(r["list_of_thorns"])))


def canon_par_model(o):
    """model line -> same canonical form: derived keys dropped, the exact decimal mant*10^exp rounded to a double
    by Python's float() (what `float(value)` does with the text), thorns as a sorted set"""
    if not o.startswith("ok "):
        return o
    body, th = o[3:].split(" T ")
    derived = {enc(k) for k in PAR_DERIVED}
    es = []
    for e in ([] if body == "~" else body.split(";")):
        k, v = e.split("=", 1)
        if k in derived:
            continue
        if v.startswith("F"):
            m, x = v[1:].split(",")
            try:
                v = "F" + float("%se%s" % (m, x)).hex()
            except (ValueError, OverflowError):
                v = "F?" + v
        es.append(k + "=" + v)
    return "ok " + (";".join(es) or "~") + " T " + ",".join(sorted(set([] if th == "~" else th.split(","))))


def par_correspondence(ctx, reading):
    """the .par parser of parameters() against Model/ParFile.lean on generated parameter files (every value
    shape of the number test, quoted strings with '=', '::', '#', comments, ActiveThorns lines, line endings,
    simulation names with glob metacharacters)"""
    n = ctx.budget(250, 2500)
    lines, exp, shapes = [], [], {}
    found = nclean = 0
    root = tempfile.mkdtemp(prefix="c18p-")
    old = os.environ.get("SIMLOC")
    try:
        os.environ["SIMLOC"] = root + "/"
        for i in range(n):
            name = ctx.rng.choice(PAR_NAMES)
            want = None
            if i % 3 == 0:
                txt, want = gen_par_clean(ctx.rng)
            else:
                txt = gen_par(ctx.rng)
            d = os.path.join(root, name, "output-0000")
            os.makedirs(d, exist_ok=True)
            with open(os.path.join(d, name + ".par"), "w", newline="") as f:
                f.write(txt)
            e, r = call(reading.parameters, name)
            shutil.rmtree(os.path.join(root, name), ignore_errors=True)
            if want is not None:
                found += par_oracle(ctx, name, txt, want, e, r)
                nclean += 1
            lines.append("par %s %s %s" % (enc(root + "/"), enc(name), enc(txt)))
            exp.append(e if e else canon_par_real(r))
            k = e if e else "ok"
            shapes[k] = shapes.get(k, 0) + 1
    finally:
        if old is None:
            os.environ.pop("SIMLOC", None)
        else:
            os.environ["SIMLOC"] = old
        shutil.rmtree(root, ignore_errors=True)
    try:
        outs = [canon_par_model(o) for o in ctx.run_driver("Driver/C18.lean", lines)]
    except Exception as ex:  # noqa
        ctx.obligation("par:driver", False, repr(ex), kind="correspondence")
        return found
    bad = ["`%s`: real `%s` model `%s`" % (l[:60], e[:300], o[:300]) for l, e, o in zip(lines, exp, outs) if e != o]
    ctx.cov["par_files"] = {"n": len(lines), "outcomes": shapes, "well-formed files judged by ground truth": nclean}
    ctx.obligation("correspondence: Model/ParFile vs the .par parser of parameters() (%d generated files)" % len(lines),
                   not bad and len(outs) == len(lines), " ;; ".join(bad[:4]), kind="correspondence")
    if bad:
        os.makedirs("/tmp/c18-work", exist_ok=True)
        with open("/tmp/c18-work/last_par_mismatch.txt", "w") as f:
            f.write("\n".join(bad[:50]))
    return found


def parameters_observation(ctx, reading):
    """informational: values of a .par file that do NOT come back as the number / string that was written (the
    model reproduces each of them: see par_correspondence); recorded, not judged."""
    vals = {"A::i1": ("7", 7), "A::i2": ("-12", -12), "A::f1": ("0.5", 0.5), "A::f2": ("1e-5", 1e-5),
            "A::f3": ("-1.5e-3", -1.5e-3), "A::f4": ("+2.5e+2", 250.0), "A::s1": ('"hello"', "hello"),
            "A::s2": ('"a=b::c"', "a=b::c"), "A::s3": ('"x # y"', "x # y"), "B::i1": ("3", 3)}
    root = tempfile.mkdtemp(prefix="c18p-")
    old = os.environ.get("SIMLOC")
    obs = {}
    try:
        d = os.path.join(root, "p", "output-0000")
        os.makedirs(d)
        grid = "".join("CoordBase::%smin = -1.0\nCoordBase::%smax = 1.0\nCoordBase::d%s = 0.5\n" % (c, c, c) for c in "xyz")
        with open(os.path.join(d, "p.par"), "w") as f:
            f.write('ActiveThorns = "A B"\n' + grid + "".join("%s = %s\n" % (k, v[0]) for k, v in vals.items()))
        os.environ["SIMLOC"] = root + "/"
        e, r = call(reading.parameters, "p")
        if e:
            obs["parameters()"] = e
        else:
            for k, (txt, want) in vals.items():
                got = r.get(k.split("::")[1], r.get(k))
                if got != want or type(got) is not type(want):
                    obs["%s = %s" % (k, txt)] = repr(got)
    finally:
        if old is None:
            os.environ.pop("SIMLOC", None)
        else:
            os.environ["SIMLOC"] = old
        shutil.rmtree(root, ignore_errors=True)
    ctx.cov["parameters_values_not_round_tripped (informational; outside the hypotheses of par_line_roundtrip)"] = obs


def run(ctx):
    from aurel import reading
    ctx.trusted += ["Lean 4.33 kernel; axioms propext, Classical.choice, Quot.sound",
                    "Model/Catalog.lean is hand-written; tied to reading.py by correspondence on generated trees, call "
                    "sequences, fuzzed catalogue texts, overall-merge inputs, range-membership queries and regex differential",
                    "Python str.split / in / int / repr / print, json.dump/load inverse on dict[str, list[str]], "
                    "os.listdir order = glob order, glob.escape makes the path literal, h5py key listing (taken from "
                    "the real libraries as inputs)"]
    ctx.assumptions += ["restart directories are not modified after they have been catalogued (only new restarts appear)",
                        "all HDF5 files readable; ASCII digits only in names"]
    ctx.prove(MODULE, THEOREMS)
    ctx.prove(MODULE_B, THEOREMS_B)
    ctx.prove(MODULE_C, THEOREMS_C)
    ctx.forbidden_scan(FILES)
    if ctx.tier == "thorough":
        ctx.leanchecker([MODULE, MODULE_B, MODULE_C])
    regex_differential(ctx, reading)
    found = correspondence(ctx, reading)
    found += excluded_points(ctx, reading)
    chunk_variable_witnesses(ctx, reading)
    found += par_correspondence(ctx, reading)
    parameters_observation(ctx, reading)
    ctx.cov["violations_found"] = found


def replay(ctx, obj):
    from aurel import reading
    if obj.get("kind") == "group_chunks":
        root = tempfile.mkdtemp(prefix="c18r-")
        try:
            param, d, on_disk = build_chunk_witness(root, obj["witness"])
            got, got2 = judge_chunk_witness(reading, param, on_disk)
            bad = 1 if (got != on_disk or got2 != on_disk) else 0
            print("replay: listing %r; get_content %r; iterations %r; on disk %r" % (os.listdir(d), got, got2, on_disk))
            print("replay: %d violation(s) now" % bad)
            return bad
        finally:
            shutil.rmtree(root, ignore_errors=True)
    if obj.get("kind") == "par":
        root = tempfile.mkdtemp(prefix="c18r-")
        old = os.environ.get("SIMLOC")
        try:
            d = os.path.join(root, obj["name"], "output-0000")
            os.makedirs(d)
            with open(os.path.join(d, obj["name"] + ".par"), "w", newline="") as f:
                f.write(obj["text"])
            os.environ["SIMLOC"] = root + "/"
            e, r = call(reading.parameters, obj["name"])
            bad = 0
            if e:
                print("replay: parameters() -> %s" % e)
                bad = 1
            else:
                for k, (tn, rp) in obj["want"].items():
                    got = r.get(k)
                    if type(got).__name__ != tn or repr(got) != rp:
                        print("replay: %r comes back as %r, the file says %s" % (k, got, rp))
                        bad = 1
            print("replay: %d violation(s) now" % bad)
            return bad
        finally:
            if old is None:
                os.environ.pop("SIMLOC", None)
            else:
                os.environ["SIMLOC"] = old
            shutil.rmtree(root, ignore_errors=True)
    if obj.get("kind") != "history" or "plan" not in obj:
        print("replay: nothing to re-execute (kind=%s)" % obj.get("kind"))
        return 0
    root = tempfile.mkdtemp(prefix="c18r-")
    try:
        tree = Tree(ctx, obj["plan"], root)
        ops = [tuple(o) for o in obj["ops"]]
        run_sequence(ctx, reading, tree, 0, ops=ops)
        e2, r2 = call(reading.iterations, tree.param, skip_last=False, verbose=False)
        last = ("err", e2) if e2 else ("ok", r2)
        n = oracle_check(ctx, reading, tree, last, obj["ops"]) + fresh_scan_check(ctx, reading, tree, last, obj["ops"])
        print("replay: %d violation(s) now; iterations() -> %s" % (n, e2 or "ok"))
        if os.path.exists(tree.it_path()):
            print(open(tree.it_path()).read())
        return 1 if n else 0
    finally:
        shutil.rmtree(root, ignore_errors=True)


MANIFEST = {
    "category": "proof",
    "technique": "Lean 4 theorems over hand-written executable models of the catalogue code (string-level printer / split-based parser, regex matchers, incremental iterations() on a modelled file system, get_content cache, overall merge) and of the .par parser of parameters(), tied to reading.py by correspondence on generated simulation trees (regrids inside restarts, chunked and unnumbered components, variable names that are substrings of other keys / of the thorn / of the attributes group name, per-variable iteration sets inside one file) and call sequences, on generated parameter files, and by regex differential testing; oracle = the generator's ground truth per file and variable",
    "text": "Proof for all inputs: the three name matchers invert the naming scheme for every valid key / file name / checkpoint name; read_iterations parses back every catalogue the printer can write, for every path without a line break and plain variable names; any interleaving of iterations() calls with restarts being added leaves the same file and returns the same structure as one fresh scan; cached get_content equals the scan when no variable name contains a comma. The data part of a restart is a closed-form function of the keys of the variable considered (the variable of the first key of the representative file that rx_key matches): the keys are selected by their parsed variable name, exactly and without exception, whatever substrings the names share; the line of a level is the arithmetic progression on disk for ANY list of keys of that variable at the level (several chunks, one unnumbered chunk, repetitions, regrids that change the chunk count) whose SET of iterations is the progression, it depends on that set only, and the per-level block never raises. The overall merge never raises and describes exactly the union of the per-restart progressions, provided every merge of two equal-stride ranges continues the first one (the code does not check this; kernel-checked gap witness). The .par parser of parameters() reads back every line `thorn::variable = value` (any white space, thorn without ':', variable without '=', decimal integers, quoted strings without a double quote inside, bare words) and every file made of such lines, comments and blank lines, when the word ActiveThorns does not occur in an entry line and no '#' occurs inside a value (kernel-checked witnesses that both hypotheses are necessary).",
    "note": "Trusted: Lean kernel + propext/Classical.choice/Quot.sound; the hand-written models (validated on every run against the real code: returned dicts and bytes of iterations.txt/content.txt after every call on generated trees with benign and adversarial names, 1-5 restarts, 1-12 levels, four file layouts, checkpoints, regrids inside a restart incl. one unnumbered chunk <-> several, per-variable iteration sets in one file; the parameter dictionary on generated .par files); Python str/int/float/repr/json/glob/h5py semantics (h5py lists keys alphabetically: taken from the real library as input). KNOWN FINDING (not repaired in the repository; kind group_variables_from_one_chunk_file): get_content reads the variables of a group from ONE chunk file (the first of the group in the directory listing), so chunk files that do not all hold the same variables (one file per process, a regrid that adds process files late, per-variable output frequencies) make the restart's variable catalogue lose variables that are on disk; two witness directories are rebuilt and run on the real code and through the model on every run (KNOWN-FINDING line), kernel-checked on the model (group_variables_from_one_chunk_file, ..._any_order); the random generator stays outside that combination. NOT covered by theorems (modelled and compared with the code only): the choice of ONE representative file per restart (no statement that the other files hold the same iterations; a process file that lacks a level at some iterations is not generated), float values and ActiveThorns lines of a .par file. parameters() is an anchor but not in the property text; three behaviours of its .par parser are outside the hypotheses of the round-trip theorems, with kernel-checked necessity witnesses in Props/C18b and the real outcomes in the evidence, reported to the lead, no finding entry: a number with '-' in mantissa AND exponent (-5.0e-1) stays a string (CoordBase::xmin = -5.0e-1 makes parameters() raise TypeError in the grid arithmetic); '#' inside a quoted string starts a comment (\"run#1\" -> 'run'); a piece between '::' equal to ActiveThorns raises TypeError. Not modelled: the SIMLOC lookup and the grid quantities of parameters().",
}
