"""C01 — the lazy cache is transparent.

Tie A: Gen/DepGraph.lean (shape of every description key, helper methods
inlined, rank certificate, list of guards) is regenerated from the AST of
core.py on every run; Props/C01.lean re-checks the rank condition with
`decide +kernel` and proves the generic transparency theorem.
Tie B: (1) the same trace correspondence as C03 (Model/Cache bookkeeping);
(2) translation validation of the generated shapes: for every miss recorded on
the real code the sequence of direct child requests must be exactly the read
sequence of one path of the generated shape of that key.
Search oracle (independent of model and translator): random and targeted
histories on the REAL code under aggressive eviction settings; every value
returned is compared with the value a FRESH instance holding only the frozen
inputs returns for that single request.
"""
import itertools
import warnings

import numpy as np

from lib import fw
from props import C03
from py2lean import depgraph

MODULE = "AurelVerif.Props.C01"
THEOREMS = ["AurelVerif.C01." + t for t in (
    "get_transparent", "history_values", "get_no_recursion", "get_no_keyerror", "real_cleanup_admissible",
    "aurel_rank_ok", "aurel_table_complete", "aurel_tableOK", "aurel_no_recursion", "aurel_no_keyerror",
    "aurel_transparent", "polEx_ok", "tEx_coh")]
LEAN_FILES = ["AurelVerif/Props/C01.lean", "AurelVerif/Lemmas/CacheGet.lean", "AurelVerif/Lemmas/Cache.lean",
              "AurelVerif/Model/CacheGet.lean", "AurelVerif/Model/Cache.lean", "AurelVerif/Gen/DepGraph.lean"]

# guards for which a branch-coherence obligation (H2) is registered; a guard text
# found by the translator that is not listed here is a broken obligation.
KNOWN_GUARDS = {
    "'betaup3' in self.data": "algebraic (component of the cached vector)",
    "'dtbetaup3' in self.data": "algebraic",
    "'gammadown3' in self.data": "algebraic",
    "'gdown4' in self.data": "algebraic (gtt.. from gdown4 vs from alpha, beta; gdet 4x4 vs -alpha^2 det gamma)",
    "'Kdown3' in self.data": "algebraic",
    "self.vacuum": "physical option (constant)",
    "'rho' in self.data": "algebraic (rho0/eps/rho triple)",
    "'rho' in self.data and 'rho0' in self.data": "algebraic (rho0/eps/rho triple; safe_division)",
    "'Tdown4' not in self.data": "algebraic (3 p_n - rho_n vs g^{mu nu} T_{mu nu})",
    "'s_Riemann_down3' in self.data.keys()": "algebraic (contraction of the lowered Riemann tensor)",
    "not any((k in self.data for k in ('betaup3', 'betax', 'betay', 'betaz')))": "algebraic (beta = 0 when no shift "
                                                                                 "component at all is cached or given)",
    "'Tdown4' in self.data.keys()": "on solutions only, up to discretisation error (Einstein equation vs Riemann)",
    "'st_Ricci_down4' in self.data.keys()": "on solutions only, up to discretisation error",
    "'st_Riemann_down4' in self.data.keys()": "on solutions only, up to discretisation error (Riemann vs E/B)",
    "'Weyl_Psi4r' in self.data.keys()": "input-only name (constant); returns only Psi4",
    "self.tetrad == 'quasi-Kinnersley'": "physical option (constant)",
    "all((k in self.data.keys() for k in ('Momentumx', 'Momentumy', 'Momentumz')))": "algebraic (stack of components)",
}


# --------------------------------------------------------------------------
# translation validation of the generated shapes
# --------------------------------------------------------------------------
def read_sequences(info, nradii=1):
    """key -> set of tuples: the request sequences of all paths of its shape"""
    out = {}
    for k, sh in info["shapes"].items():
        seqs = set()
        for p in depgraph.paths(sh):
            seq = []
            for e in p:
                if e[0] == "read":
                    seq.append(e[1])
                elif e[0] == "rep":
                    n = e[1][1] if e[1][0] == "lit" else nradii
                    seq += list(e[2]) * n
            seqs.add(tuple(seq))
        out[k] = seqs
    return out


def validate_shapes(ctx, info, runs):
    seqs = read_sequences(info)
    bad, n, keys = [], 0, set()
    for cfg, ops, rel in runs:
        for key, present, kids, ok in rel._tr.bodies:
            if not ok or key not in seqs:
                continue
            n += 1
            keys.add(key)
            if tuple(kids) not in seqs[key]:
                bad.append("%s: real child requests %s are no path of the generated shape" % (key, list(kids)[:12]))
    ctx.cov["shape_validation_misses"] = n
    ctx.cov["shape_validation_distinct_keys"] = len(keys)
    ctx.obligation("translation validation: generated shapes vs real nested request traces (%d misses, %d keys)"
                   % (n, len(keys)), not bad, "; ".join(sorted(set(bad))[:4]), kind="correspondence")


# --------------------------------------------------------------------------
# search oracle: history vs fresh instance
# --------------------------------------------------------------------------
def same_value(a, b, rtol=0.0):
    """None if equal (bitwise for rtol = 0, NaNs equal), else a description."""
    if isinstance(a, np.ndarray) or isinstance(b, np.ndarray):
        a, b = np.asarray(a), np.asarray(b)
        if a.shape != b.shape:
            return "shape %s vs %s" % (a.shape, b.shape)
        if rtol == 0.0:
            return None if np.array_equal(a, b, equal_nan=True) else "max |diff| = %.3e (bitwise comparison)" % float(
                np.nanmax(np.abs(a - b)) if a.size else 0.0)
        fin = np.isfinite(a) & np.isfinite(b)
        if not np.array_equal(np.isfinite(a), np.isfinite(b)):
            return "non-finite pattern differs"
        if not fin.any():
            return None
        scale = float(np.max(np.abs(b[fin])))
        d = float(np.max(np.abs(a[fin] - b[fin])))
        return None if d <= rtol * (1.0 + scale) else "max |diff| = %.3e, scale %.3e" % (d, scale)
    if isinstance(a, (list, tuple)) and isinstance(b, (list, tuple)):
        if len(a) != len(b):
            return "length differs"
        for x, y in zip(a, b):
            r = same_value(x, y, rtol)
            if r:
                return r
        return None
    if isinstance(a, dict) and isinstance(b, dict):
        if list(a.keys()) != list(b.keys()):
            return "dict keys differ"
        for k in a:
            r = same_value(a[k], b[k], rtol)
            if r:
                return r
        return None
    if a is None or b is None:
        return None if a is b else "None vs value"
    try:
        return same_value(np.asarray(a), np.asarray(b), rtol)
    except Exception:  # noqa
        return None if a == b else "objects differ"


class Fresh:
    """values of single requests on fresh instances holding only the frozen inputs"""

    def __init__(self, cfg):
        self.cfg = dict(cfg, period=20, thr_scalars=10 ** 9)
        self.cache = {}

    def get(self, key):
        if key not in self.cache:
            rel, _ = C03.build(self.cfg)
            with warnings.catch_warnings(), np.errstate(all="ignore"):
                warnings.simplefilter("ignore")
                try:
                    v = rel[key]
                    self.cache[key] = ("ok", v, rel._tr.prov.get(key))
                except RecursionError:
                    self.cache[key] = ("exc", "RecursionError", None)
                except Exception as ex:  # noqa
                    self.cache[key] = ("exc", type(ex).__name__, None)
        return self.cache[key]

    def band(self, key, v):
        """discretisation band of `key` from one grid refinement (N -> 2N, same origin, half the spacing):
        max |v_N - v_2N at the coarse points| (None if not comparable)"""
        if ("band", key) not in self.cache:
            fine = Fresh(dict(self.cfg, N=2 * self.cfg["N"]))
            f = fine.get(key)
            est = None
            if f[0] == "ok":
                try:
                    a, b = np.asarray(v, dtype=complex), np.asarray(f[1], dtype=complex)
                    b = b[..., ::2, ::2, ::2]
                    if a.shape == b.shape:
                        fin = np.isfinite(a) & np.isfinite(b)
                        est = float(np.max(np.abs(a[fin] - b[fin]))) if fin.any() else 0.0
                except Exception:  # noqa
                    est = None
            self.cache[("band", key)] = est
        return self.cache[("band", key)]


def within_band(a, b, band):
    try:
        a, b = np.asarray(a, dtype=complex), np.asarray(b, dtype=complex)
    except Exception:  # noqa
        return None
    if a.shape != b.shape:
        return "shape differs"
    fin = np.isfinite(a) & np.isfinite(b)
    if not fin.any():
        return None
    d = float(np.max(np.abs(a[fin] - b[fin])))
    scale = float(np.max(np.abs(b[fin])))
    tol = 10 * band + 1e-9 * (1 + scale)
    return None if d <= tol else "max |diff| = %.3e > band %.3e (scale %.3e)" % (d, tol, scale)


_DOWN = {}


def downstream(info, roots):
    """keys whose value depends (through any path of any shape) on one of `roots`"""
    key = tuple(roots)
    if key not in _DOWN:
        deps = {}
        for k, sh in info["shapes"].items():
            d = set()
            depgraph.walk_shape(sh, [], lambda r, g, d=d: d.add(r), lambda p, g, d=d: d.add(p))
            deps[k] = d
        out = set(roots)
        changed = True
        while changed:
            changed = False
            for k, d in deps.items():
                if k not in out and d & out:
                    out.add(k)
                    changed = True
        _DOWN[key] = out
    return _DOWN[key]


def cause_of(cfg, key, info):
    """root cause classification used in fingerprints (known findings)"""
    ins = set(C03.input_keys(cfg))
    if info is not None and ({"betay", "betaz"} & ins) and not ({"betax", "betaup3"} & ins) \
            and key in downstream(info, ("st_Weyl_down4", "st_Riemann_down4")):
        return "s_to_st-partial-shift"
    return ""


_FRESH = {}


def fresh_for(cfg):
    """fresh-instance values are shared by all histories with the same inputs and physical options"""
    key = repr(sorted((k, v) for k, v in cfg.items() if k not in ("period", "thr_scalars")))
    if key not in _FRESH:
        if len(_FRESH) > 12:
            _FRESH.clear()
        _FRESH[key] = Fresh(cfg)
    return _FRESH[key]


def oracle_history(ctx, cfg, ops, tag, stats, info=None):
    """run the history on the real code, compare every value with a fresh instance"""
    fresh = fresh_for(cfg)
    found = [0]

    def on_value(i, key, v, rel):
        pv = rel._tr.prov.get(key)
        f = fresh.get(key)
        stats["compared"] += 1
        if f[0] == "exc":
            # a fresh instance cannot compute it either, the history could: not a transparency failure
            stats["fresh_raises"] += 1
            return
        same_alt = pv is not None and f[2] is not None and pv[0] == f[2][0]
        if same_alt:
            stats["same_alternatives"] += 1
            d = same_value(v, f[1], 0.0)
        elif pv is not None and f[2] is not None and pv[1] != f[2][1]:
            # alternatives that agree only on solutions of Einstein's equations and up to discretisation error:
            # compared (within a band from one grid refinement) on exact-solution inputs only
            band = fresh.band(key, f[1]) if cfg["inputs"].startswith("sol:") and isinstance(f[1], np.ndarray) else None
            if band is None:
                stats["solution_only_alternatives_skipped"] += 1
                return
            stats["solution_only_alternatives_band"] += 1
            d = within_band(v, f[1], band)
        else:
            stats["algebraic_alternatives"] += 1
            d = same_value(v, f[1], ALG_RTOL)
            try:
                a, b = np.asarray(v, dtype=complex), np.asarray(f[1], dtype=complex)
                fin = np.isfinite(a) & np.isfinite(b)
                if a.shape == b.shape and fin.any():
                    r = float(np.max(np.abs(a[fin] - b[fin])) / (1.0 + np.max(np.abs(b[fin]))))
                    if r > stats["max_algebraic_rel_diff"]:
                        stats["max_algebraic_rel_diff"] = r
                        stats["max_algebraic_rel_diff_key"] = key
            except Exception:  # noqa
                pass
        if d:
            found[0] += ctx.violation(
                "%s: value of %r after the history differs from a fresh instance (%s; %s)"
                % (tag, key, d, "same alternatives" if same_alt else "different alternatives"),
                {"kind": "history", "cfg": cfg, "ops": ops[: i + 1], "key": key, "difference": d},
                {"site": "value", "cause": cause_of(cfg, key, info), "key": key, "inputs": cfg["inputs"]})

    rel, fails = C03.execute(cfg, ops, on_value=on_value, watch_values=True)
    for f in fails:
        # exceptions in the history that a fresh instance does not raise
        what = str(f[0])
        if what.startswith(("RecursionError", "KeyError", "AttributeError", "ValueError", "TypeError", "IndexError")) \
                and isinstance(f[1], list) and f[1][0] == "get":
            fr = fresh.get(f[1][1])
            if fr[0] == "exc" and what.startswith(fr[1]):
                stats["same_exception_as_fresh"] += 1
                continue
        found[0] += ctx.violation("%s: %s %s" % (tag, f[0], f[1:]),
                                  {"kind": "history", "cfg": cfg, "ops": ops, "failure": [str(x) for x in f]},
                                  dict(C03.fingerprint(f), inputs=cfg["inputs"]))
    return rel, found[0]


ALG_RTOL = 1e-11      # observed between algebraically equivalent alternatives: <= 2e-15


def gen_ops(rng, nreq, keys, inputs=()):
    """requests and setting changes; importance overrides only on non-input keys
    (giving an input a positive importance un-freezes it: not an eviction of a frozen input)"""
    ops = []
    hot = rng.sample(keys, min(len(keys), rng.randrange(6, 30)))
    free = [k for k in hot if k not in inputs] or [k for k in keys if k not in inputs]
    for _ in range(nreq):
        r = rng.random()
        if r < 0.86:
            ops.append(["get", rng.choice(hot) if rng.random() < 0.7 else rng.choice(keys)])
        elif r < 0.90:
            ops.append(["period", rng.randrange(1, 6)])
        elif r < 0.94:
            ops.append(["thr", rng.choice(C03.THRESHOLDS)])
        elif r < 0.98:
            ops.append(["imp", rng.choice(free), rng.choice(C03.IMPORTANCE)])
        else:
            ops.append(["cleanup"])
    return ops


def guard_keys(g):
    if g[0] == "pres":
        return [g[1]]
    if g[0] == "not":
        return guard_keys(g[1])
    if g[0] in ("and", "or"):
        return guard_keys(g[1]) + guard_keys(g[2])
    return []


def targeted(info, rng, keys):
    """For every (method, guard): request the keys the guard mentions, pin some of
    them (importance 0, public API), let everything else be evicted by the most
    aggressive settings, then request the guarded key (twice)."""
    out = []

    def tests(sh, acc):
        if sh[0] == "test":
            if guard_keys(sh[1]):
                acc.append(sh[1])
            tests(sh[2], acc)
            tests(sh[3], acc)
        elif sh[0] in ("read", "peek"):
            tests(sh[2], acc)
        elif sh[0] == "rep":
            tests(sh[3], acc)
    for k, sh in info["shapes"].items():
        gs = []
        tests(sh, gs)
        seen = []
        for g in gs:
            gk = [x for x in guard_keys(g) if x in info["shapes"]]
            if not gk or gk in seen:
                continue
            seen.append(gk)
            for pin in (gk, gk[:1], []):
                ops = [["period", 1], ["thr", 0.25]]
                ops += [["get", x] for x in gk]
                ops += [["imp", x, 0] for x in pin]
                ops += [["get", rng.choice(keys)] for _ in range(3)]
                ops += [["get", k], ["get", rng.choice(keys)], ["get", rng.choice(keys)], ["get", k]]
                ops += [["get", x] for x in gk]
                out.append((k, ops))
    return out


def direct_reads(info):
    deps = {}
    for k, sh in info["shapes"].items():
        d = []
        depgraph.walk_shape(sh, [], lambda r, g, d=d: (None if r in d else d.append(r)),
                            lambda p, g, d=d: (None if p in d else d.append(p)))
        deps[k] = [x for x in d if x in info["shapes"]]
    return deps


# cache settings under which a fault in a cached entry is NOT healed by eviction
GENTLE = ({"period": 20, "thr_scalars": 10 ** 6}, {"period": 10 ** 6, "thr_scalars": 10 ** 9})
# families of inputs / physical options for the dependency histories
FAMILIES = (
    {"inputs": "tensors", "vacuum": False, "Lambda": 0.3},      # fluid: rho0, eps, press, velocity
    {"inputs": "fluid_T", "vacuum": False, "Lambda": 0.3},      # energy-stress tensor supplied
    {"inputs": "vacuumlike", "vacuum": True, "Lambda": 0.0},
    {"inputs": "tensors", "vacuum": False, "Lambda": 0.0},
)


def dependency_histories(info, rng, nkeys, nconsumers=10):
    """For each key K of a sample: request K first, then re-request everything K reads
    and the consumers of what K reads (from the generated DepGraph): a value K's
    computation left behind in the cache (stale, aliased, modified in place) is then
    compared with a fresh instance, directly and through its consumers."""
    deps = direct_reads(info)
    cons = {}
    for k, d in deps.items():
        for x in d:
            cons.setdefault(x, []).append(k)
    big = sorted((k for k in deps if len(deps[k]) >= 3), key=lambda k: -info["rank"][k])
    always = [k for k in ("st_Riemann_down4", "Kretschmann", "st_Weyl_down4", "st_Ricci_down4", "Weyl_Psi") if k in deps]
    pool = [k for k in big if k not in always]
    sample = always + rng.sample(pool, min(len(pool), max(0, nkeys - len(always))))
    out = []
    for K in sample:
        cs = []
        for x in deps[K]:
            for c in cons.get(x, []):
                if c != K and c not in cs:
                    cs.append(c)
        rng.shuffle(cs)
        ops = [["get", K]] + [["get", x] for x in deps[K]] + [["get", c] for c in cs[:nconsumers]] + [["get", K]]
        out.append((K, ops))
    return out


def search(ctx, info, nhist, nreq):
    keys = C03.description_keys()
    stats = dict.fromkeys(("compared", "same_alternatives", "algebraic_alternatives",
                           "solution_only_alternatives_skipped", "solution_only_alternatives_band", "max_algebraic_rel_diff", "fresh_raises", "same_exception_as_fresh"), 0)
    runs = []
    found = 0
    # targeted histories: the two that exposed the (now fixed) Momentum cycle and eps = -1, then all guards
    fixed = [
        ("momentum-cycle", {"inputs": "tensors"},
         [["period", 1], ["thr", 0.25], ["get", "Momentumx"], ["imp", "Momentumx", 0], ["get", "Hamiltonian"],
          ["get", "s_RicciS"], ["get", "Momentumup3"], ["get", "Momentumy"], ["get", "Momentumz"],
          ["imp", "Momentumy", 0], ["imp", "Momentumz", 0], ["get", "Ktrace"], ["get", "s_RicciS"],
          ["get", "Momentumup3"], ["get", "Momentumx_norm"]]),
        ("eps-after-rho", {"inputs": "rho0zeros"},
         [["period", 1], ["thr", 0.25], ["get", "rho"], ["imp", "rho", 0], ["get", "Ktrace"], ["get", "gammadet"],
          ["get", "s_RicciS"], ["get", "eps"], ["get", "enthalpy"], ["get", "rho0"], ["get", "eps"]]),
        ("rho0-from-rho", {"inputs": "rho_only"},
         [["period", 1], ["thr", 0.25], ["get", "rho0"], ["get", "Ktrace"], ["get", "gammadet"], ["get", "eps"],
          ["get", "rho0"], ["get", "enthalpy"], ["get", "eps"]]),
    ]
    base = {"N": 8, "order": 2, "variant": 0, "vacuum": False, "Lambda": 0.0, "tetrad": "quasi-Kinnersley", "period": 1,
            "thr_scalars": 0.25, "drop": []}
    fixed.append(("s_to_st-partial-shift", {"inputs": "partial_shift", "vacuum": True, "period": 20, "thr_scalars": 10 ** 6},
                  [["get", "betaup3"], ["get", "st_Weyl_down4"]]))
    for tag, over, ops in fixed:
        cfg = dict(base, **over)
        rel, n = oracle_history(ctx, cfg, ops, tag, stats, info)
        found += n
        runs.append((cfg, ops, rel))
    tg = targeted(info, ctx.rng, keys)
    ctx.cov["targeted_guard_histories_available"] = len(tg)
    ctx.rng.shuffle(tg)
    ntg = min(len(tg), ctx.budget(60, len(tg)))
    for k, ops in tg[:ntg]:
        cfg = dict(base, inputs=ctx.rng.choice(["tensors", "components", "rho0zeros", "rho_only", "noshift",
                                                "sol:Collins_Stewart", "sol:Collins_Stewart", "sol:Non_diagonal"]),
                   order=ctx.rng.choice((2, 4)), vacuum=ctx.rng.random() < 0.15)
        if cfg["inputs"].startswith("sol:"):
            cfg["vacuum"] = False
        rel, n = oracle_history(ctx, cfg, ops, "guard of " + k, stats, info)
        found += n
        runs.append((cfg, ops, rel))
    # dependency histories under gentle cache settings (aggressive eviction heals faults in cached entries)
    dh = dependency_histories(info, ctx.rng, ctx.budget(14, 60))
    ctx.cov["dependency_histories"] = 0
    nalways = 5
    for j, (K, ops) in enumerate(dh):
        if ctx.tier == "thorough" or j < nalways:
            # the big curvature keys: every matter family under BOTH gentle settings (with period 20 the
            # clean-up at count 20 already evicts most of what a 21-calculation request leaves behind)
            combos = [(f, g) for f in FAMILIES[:3] for g in GENTLE]
        else:
            combos = [(FAMILIES[j % 2], GENTLE[1]), (FAMILIES[2 + j % 2], GENTLE[0])]
        for fam, gentle in combos:
            cfg = dict(base, **fam)
            cfg.update(gentle)
            if ctx.tier == "thorough":
                cfg["order"] = ctx.rng.choice((2, 4))
            rel, n = oracle_history(ctx, cfg, ops, "dependencies of " + K, stats, info)
            found += n
            runs.append((cfg, ops, rel))
            ctx.cov["dependency_histories"] += 1
    for h in range(nhist):
        cfg = C03.gen_config(ctx.rng, ctx.tier)
        if ctx.rng.random() < 0.3:       # also random histories under gentle settings
            cfg.update(ctx.rng.choice(GENTLE))
        inputs = C03.input_keys(cfg)
        ops = gen_ops(ctx.rng, ctx.rng.randrange(nreq // 2, nreq + 1), keys, inputs)
        rel, n = oracle_history(ctx, cfg, ops, "random history %d" % h, stats, info)
        found += n
        runs.append((cfg, ops, rel))
    ctx.cov["oracle_histories"] = len(runs)
    ctx.cov["oracle_targeted_histories"] = len(fixed) + ntg
    ctx.cov["oracle"] = stats
    ctx.cov["oracle_evictions"] = sum(r[2]._tr.evictions for r in runs)
    return runs, found


COHERENCE_MODULE = "AurelVerif.Props.C01Coherence"
COHERENCE_THEOREMS = ["AurelVerif.C01Coherence." + t for t in (
    "metric_components_coherent", "metric_tensor_coherent", "curvature_components_coherent",
    "shift_components_coherent", "component_defaults", "s_to_st_coherent", "Ttrace_coherent")] + [
    "AurelVerif.C08.gt_coherent", "AurelVerif.C08.gdet_coherent", "AurelVerif.C09.eos_consistent"]
COHERENCE_NEEDED = ["gxx", "gxy", "gxz", "gyy", "gyz", "gzz", "gammadown3", "kxx", "Kdown3", "betax", "betaup3",
                    "dtbetax", "dtbetaup3", "s_to_st", "Ttrace", "gtt", "gdet", "rho0", "eps", "rho"]


def run(ctx):
    ctx.trusted += ["Lean 4.33 kernel; axioms propext, Classical.choice, Quot.sound",
                    "py2lean/depgraph.py (AST -> shapes; validated on every run against the real nested request traces)",
                    "Model/CacheGet.lean and Model/Cache.lean are hand-written; the bookkeeping model is tied to the real "
                    "AurelCore by trace replay (as C03)",
                    "numpy is deterministic: the same sequence of operations on the same inputs gives the same bits"]
    ctx.assumptions += [
        "values are immutable (no in-place modification of cached arrays): property C02",
        "branch coherence H2 (hypothesis TableCoh of get_transparent) for the real formulas is NOT proven here: the "
        "guards found by the translator are listed below as coherence obligations assumed here, proven/validated "
        "elsewhere; the search oracle compares the real values instead",
        "oracle tolerances: bitwise when history and fresh instance used the same alternatives everywhere in the "
        "computation tree; %g relative when only algebraically equivalent alternatives differ; alternatives that agree "
        "only on solutions of Einstein's equations (st_Ricci_down4, st_Ricci_down3, st_Weyl_down4, Weyl_Psi with Psi4 "
        "given) are compared on the exact solutions shipped with aurel (Collins_Stewart, Non_diagonal, "
        "Rosquist_Jantzen at t = 1.5) within a band of 10 x the change of the fresh value under one grid refinement, and "
        "are not compared on the generic (non-solution) hand-made fields" % ALG_RTOL,
        "after every request every entry still cached is re-hashed: an entry modified in place is reported (explains a "
        "history dependence; overlaps with C02)"]
    info = None
    try:
        changed, info = depgraph.regen()
        det = "regenerated (changed=%s): %d keys, %d helper shapes, %d guards, max rank %d" % (
            changed, len(info["shapes"]), len(info["helper_shapes"]), len(info["guards"]), max(info["rank"].values()))
        ctx.obligation("py2lean:depgraph", True, det, kind="translation")
        if info["cycles"]:
            ctx.obligation("py2lean:depgraph rank certificate", False,
                           "dependency cycle through not-guaranteed reads: %s" % info["cycles"][:3], kind="translation")
        if info["bad_peeks"]:
            ctx.obligation("py2lean:depgraph guarded direct accesses", False,
                           "self.data[...] not covered by a guard: %s" % info["bad_peeks"][:5], kind="translation")
        new = sorted(g for g in info["guards"] if g not in KNOWN_GUARDS)
        ctx.obligation("guards have registered coherence obligations", not new,
                       "new guard(s) without coherence obligation: %s" % new, kind="translation")
        ctx.cov["coherence_obligations_assumed_here_proven_or_validated_elsewhere"] = {
            g: {"tested_in": info["guards"][g], "kind": KNOWN_GUARDS.get(g, "UNREGISTERED")} for g in sorted(info["guards"])}
        ctx.cov["opaque_value_tests"] = info["flags"]
        ctx.cov["input_only_names"] = info["extra"]
        ctx.sample({"generated_shape": "gtt", "shape": str(info["shapes"]["gtt"])})
        ctx.sample({"generated_shape": "Momentumup3", "shape": str(info["shapes"]["Momentumup3"])[:400]})
    except Exception as ex:  # noqa
        ctx.obligation("py2lean:depgraph", False, "translation failed: %r" % ex, kind="translation")
    ctx.prove(MODULE, THEOREMS)
    ctx.forbidden_scan(LEAN_FILES)
    # branch coherence (H2) of the REAL formulas: theorems about the alternatives regenerated from
    # core.py by symbolic execution (lead's part; see Props/C01Coherence.lean for what is proven where)
    try:
        from lib import corecheck
        r = corecheck.regen_and_validate(ctx, COHERENCE_NEEDED)
        if r is not None:
            ctx.prove(COHERENCE_MODULE, COHERENCE_THEOREMS, timeout=2400)
            ctx.forbidden_scan(["AurelVerif/Props/C01Coherence.lean"])
    except Exception as ex:  # noqa
        ctx.obligation("coherence theorems", False, "could not be checked: %r" % ex)
    if ctx.tier == "thorough":
        ctx.leanchecker([MODULE])
    # correspondence (bookkeeping) — shared harness with C03
    runs = C03.correspondence(ctx, "C01", ctx.budget(12, 60), ctx.budget(30, 60))
    # independent search oracle (always; larger when something is broken)
    extra = 3 if ctx.broken() else 1
    runs2, found = ([], 0)
    if info is not None:
        runs2, found = search(ctx, info, ctx.budget(35, 250) * extra, ctx.budget(30, 60))
        validate_shapes(ctx, info, runs + runs2)


def replay(ctx, obj):
    if "cfg" not in obj:
        print("replay: not a history replay (kind=%s): %s" % (obj.get("kind"), obj.get("what")))
        return 1
    stats = dict.fromkeys(("compared", "same_alternatives", "algebraic_alternatives",
                           "solution_only_alternatives_skipped", "solution_only_alternatives_band", "max_algebraic_rel_diff", "fresh_raises", "same_exception_as_fresh"), 0)
    n0 = len(ctx.violations) + len(ctx.known)
    try:
        info = depgraph.analyse()
    except Exception:  # noqa
        info = None
    oracle_history(ctx, obj["cfg"], obj["ops"], "replay", stats, info)
    n = len(ctx.violations) + len(ctx.known) - n0
    print("replay: %d failure(s) now; %s" % (n, stats))
    return 1 if n else 0


MANIFEST = {
    "category": "proof",
    "technique": "Lean 4: generic transparency theorem over an abstract definition table and an arbitrary eviction policy; "
                 "kernel-decided rank condition on the dependency graph regenerated from core.py; trace replay and "
                 "translation validation against the real AurelCore; history-vs-fresh-instance oracle",
    "text": "Proof (generic): for every definition table, every frozen input set, every eviction policy that removes only "
            "non-frozen entries (the real clean-up is proven to be one, for every period/threshold/importance), every "
            "finite history and final request, the value returned equals the one a fresh instance returns, given branch "
            "coherence of the alternatives. Proof (real code): the dependency graph regenerated from core.py on every run "
            "satisfies the rank condition (kernel-checked), hence no request can recurse without end or hit a missing "
            "self.data entry whatever is evicted. Branch coherence of the real formulas is an explicit hypothesis here "
            "(guards listed in evidence) and is exercised by the history-vs-fresh oracle on the real code.",
    "note": "Trusted: Lean kernel + standard axioms; the AST translator of the dependency shapes (validated against every "
            "recorded real miss); the hand models (trace replay). NOT proven here: H2 for the real einsum bodies; numerical "
            "closeness of alternatives that agree only on solutions. In-place mutation is C02.",
}
