"""C01 — the lazy cache is transparent.

Tie A: Gen/DepGraph.lean (shape of every description key, helper methods
inlined, rank certificate, list of guards) is regenerated from the AST of
core.py on every run; Props/C01.lean re-checks the rank condition with
`decide +kernel` and proves the generic transparency theorem.
Tie B: (1) the same trace correspondence as C03 (Model/Cache bookkeeping);
(2) translation validation of the generated shapes: for every miss recorded on
the real code the sequence of direct child requests must be exactly the read
sequence of one path of the generated shape of that key.
Search oracle (independent of model and translator): random and targeted
histories on the REAL code under aggressive eviction settings; every value
returned is compared with the value a FRESH instance holding only the frozen
inputs returns for that single request.
"""
import itertools
import warnings

import numpy as np

from lib import fw
from props import C03
from py2lean import depgraph

MODULE = "AurelVerif.Props.C01"
THEOREMS = ["AurelVerif.C01." + t for t in (
    "get_transparent", "history_values", "get_no_recursion", "get_no_keyerror", "real_cleanup_admissible",
    "aurel_rank_ok", "aurel_table_complete", "aurel_tableOK", "aurel_no_recursion", "aurel_no_keyerror",
    "aurel_transparent", "polEx_ok", "tEx_coh")]
LEAN_FILES = ["AurelVerif/Props/C01.lean", "AurelVerif/Lemmas/CacheGet.lean", "AurelVerif/Lemmas/Cache.lean",
              "AurelVerif/Model/CacheGet.lean", "AurelVerif/Model/Cache.lean", "AurelVerif/Gen/DepGraph.lean"]

# guards for which a branch-coherence obligation (H2) is registered; a guard text
# found by the translator that is not listed here is a broken obligation.  (Short descriptions only: the class of
# each guard and the theorems that cover it are in COHERENCE_TABLE below, checked by coherence_table().)
KNOWN_GUARDS = {
    "'betaup3' in self.data": "algebraic (component of the cached vector)",
    "'dtbetaup3' in self.data": "algebraic",
    "'gammadown3' in self.data": "algebraic",
    "'gdown4' in self.data": "algebraic (gtt.. from gdown4 vs from alpha, beta; gdet 4x4 vs -alpha^2 det gamma)",
    "'Kdown3' in self.data": "algebraic",
    "self.vacuum": "physical option (constant)",
    "'rho' in self.data": "algebraic (rho0/eps/rho triple)",
    "'rho' in self.data and 'rho0' in self.data": "algebraic (rho0/eps/rho triple; safe_division)",
    "'Tdown4' not in self.data": "algebraic (3 p_n - rho_n vs g^{mu nu} T_{mu nu})",
    "'s_Riemann_down3' in self.data.keys()": "algebraic (contraction of the lowered Riemann tensor)",
    "not any((k in self.data for k in ('betaup3', 'betax', 'betay', 'betaz')))": "algebraic (beta = 0 when no shift "
                                                                                 "component at all is cached or given)",
    "'Tdown4' in self.data.keys()": "on solutions only, up to discretisation error (Einstein equation vs Riemann)",
    "'st_Ricci_down4' in self.data.keys()": "on solutions only, up to discretisation error",
    "'st_Riemann_down4' in self.data.keys()": "on solutions only, up to discretisation error (Riemann vs E/B)",
    "'Weyl_Psi4r' in self.data.keys()": "input-only name (constant); returns only Psi4",
    "self.tetrad == 'quasi-Kinnersley'": "physical option (constant)",
    "all((k in self.data.keys() for k in ('Momentumx', 'Momentumy', 'Momentumz')))": "algebraic (stack of components)",
}


# --------------------------------------------------------------------------
# translation validation of the generated shapes
# --------------------------------------------------------------------------
def read_sequences(info, nradii=1):
    """key -> set of tuples: the request sequences of all paths of its shape"""
    out = {}
    for k, sh in info["shapes"].items():
        seqs = set()
        for p in depgraph.paths(sh):
            seq = []
            for e in p:
                if e[0] == "read":
                    seq.append(e[1])
                elif e[0] == "rep":
                    n = e[1][1] if e[1][0] == "lit" else nradii
                    seq += list(e[2]) * n
            seqs.add(tuple(seq))
        out[k] = seqs
    return out


def validate_shapes(ctx, info, runs):
    seqs = read_sequences(info)
    bad, n, keys = [], 0, set()
    for cfg, ops, rel in runs:
        for key, present, kids, ok in rel._tr.bodies:
            if not ok or key not in seqs:
                continue
            n += 1
            keys.add(key)
            if tuple(kids) not in seqs[key]:
                bad.append("%s: real child requests %s are no path of the generated shape" % (key, list(kids)[:12]))
    ctx.cov["shape_validation_misses"] = n
    ctx.cov["shape_validation_distinct_keys"] = len(keys)
    ctx.obligation("translation validation: generated shapes vs real nested request traces (%d misses, %d keys)"
                   % (n, len(keys)), not bad, "; ".join(sorted(set(bad))[:4]), kind="correspondence")


# --------------------------------------------------------------------------
# search oracle: history vs fresh instance
# --------------------------------------------------------------------------
def same_value(a, b, rtol=0.0):
    """None if equal (bitwise for rtol = 0, NaNs equal), else a description."""
    if isinstance(a, np.ndarray) or isinstance(b, np.ndarray):
        a, b = np.asarray(a), np.asarray(b)
        if a.shape != b.shape:
            return "shape %s vs %s" % (a.shape, b.shape)
        if rtol == 0.0:
            return None if np.array_equal(a, b, equal_nan=True) else "max |diff| = %.3e (bitwise comparison)" % float(
                np.nanmax(np.abs(a - b)) if a.size else 0.0)
        fin = np.isfinite(a) & np.isfinite(b)
        if not np.array_equal(np.isfinite(a), np.isfinite(b)):
            return "non-finite pattern differs"
        if not fin.any():
            return None
        scale = float(np.max(np.abs(b[fin])))
        d = float(np.max(np.abs(a[fin] - b[fin])))
        return None if d <= rtol * (1.0 + scale) else "max |diff| = %.3e, scale %.3e" % (d, scale)
    if isinstance(a, (list, tuple)) and isinstance(b, (list, tuple)):
        if len(a) != len(b):
            return "length differs"
        for x, y in zip(a, b):
            r = same_value(x, y, rtol)
            if r:
                return r
        return None
    if isinstance(a, dict) and isinstance(b, dict):
        if list(a.keys()) != list(b.keys()):
            return "dict keys differ"
        for k in a:
            r = same_value(a[k], b[k], rtol)
            if r:
                return r
        return None
    if a is None or b is None:
        return None if a is b else "None vs value"
    try:
        return same_value(np.asarray(a), np.asarray(b), rtol)
    except Exception:  # noqa
        return None if a == b else "objects differ"


class Fresh:
    """values of single requests on fresh instances holding only the frozen inputs"""

    def __init__(self, cfg):
        self.cfg = dict(cfg, period=20, thr_scalars=10 ** 9)
        self.cache = {}

    def get(self, key):
        if key not in self.cache:
            rel, _ = C03.build(self.cfg)
            with warnings.catch_warnings(), np.errstate(all="ignore"):
                warnings.simplefilter("ignore")
                try:
                    v = rel[key]
                    self.cache[key] = ("ok", v, rel._tr.prov.get(key))
                except RecursionError:
                    self.cache[key] = ("exc", "RecursionError", None)
                except Exception as ex:  # noqa
                    self.cache[key] = ("exc", type(ex).__name__, None)
        return self.cache[key]

    def band(self, key, v):
        """discretisation band of `key` from one grid refinement (N -> 2N, same origin, half the spacing):
        max |v_N - v_2N at the coarse points| (None if not comparable)"""
        if ("band", key) not in self.cache:
            fine = Fresh(dict(self.cfg, N=2 * self.cfg["N"]))
            f = fine.get(key)
            est = None
            if f[0] == "ok":
                try:
                    a, b = np.asarray(v, dtype=complex), np.asarray(f[1], dtype=complex)
                    b = b[..., ::2, ::2, ::2]
                    if a.shape == b.shape:
                        fin = np.isfinite(a) & np.isfinite(b)
                        est = float(np.max(np.abs(a[fin] - b[fin]))) if fin.any() else 0.0
                except Exception:  # noqa
                    est = None
            self.cache[("band", key)] = est
        return self.cache[("band", key)]


def within_band(a, b, band):
    try:
        a, b = np.asarray(a, dtype=complex), np.asarray(b, dtype=complex)
    except Exception:  # noqa
        return None
    if a.shape != b.shape:
        return "shape differs"
    fin = np.isfinite(a) & np.isfinite(b)
    if not fin.any():
        return None
    d = float(np.max(np.abs(a[fin] - b[fin])))
    scale = float(np.max(np.abs(b[fin])))
    tol = 10 * band + 1e-9 * (1 + scale)
    return None if d <= tol else "max |diff| = %.3e > band %.3e (scale %.3e)" % (d, tol, scale)


_DOWN = {}


def downstream(info, roots):
    """keys whose value depends (through any path of any shape) on one of `roots`"""
    key = tuple(roots)
    if key not in _DOWN:
        deps = {}
        for k, sh in info["shapes"].items():
            d = set()
            depgraph.walk_shape(sh, [], lambda r, g, d=d: d.add(r), lambda p, g, d=d: d.add(p))
            deps[k] = d
        out = set(roots)
        changed = True
        while changed:
            changed = False
            for k, d in deps.items():
                if k not in out and d & out:
                    out.add(k)
                    changed = True
        _DOWN[key] = out
    return _DOWN[key]


def cause_of(cfg, key, info):
    """root cause classification used in fingerprints (known findings)"""
    ins = set(C03.input_keys(cfg))
    if info is not None and ({"betay", "betaz"} & ins) and not ({"betax", "betaup3"} & ins) \
            and key in downstream(info, ("st_Weyl_down4", "st_Riemann_down4")):
        return "s_to_st-partial-shift"
    return ""


_FRESH = {}


def fresh_for(cfg):
    """fresh-instance values are shared by all histories with the same inputs and physical options"""
    key = repr(sorted((k, v) for k, v in cfg.items() if k not in ("period", "thr_scalars")))
    if key not in _FRESH:
        if len(_FRESH) > 12:
            _FRESH.clear()
        _FRESH[key] = Fresh(cfg)
    return _FRESH[key]


def oracle_history(ctx, cfg, ops, tag, stats, info=None):
    """run the history on the real code, compare every value with a fresh instance"""
    fresh = fresh_for(cfg)
    found = [0]

    def on_value(i, key, v, rel):
        pv = rel._tr.prov.get(key)
        f = fresh.get(key)
        stats["compared"] += 1
        if f[0] == "exc":
            # a fresh instance cannot compute it either, the history could: not a transparency failure
            stats["fresh_raises"] += 1
            return
        same_alt = pv is not None and f[2] is not None and pv[0] == f[2][0]
        if same_alt:
            stats["same_alternatives"] += 1
            d = same_value(v, f[1], 0.0)
        elif pv is not None and f[2] is not None and pv[1] != f[2][1]:
            # alternatives that agree only on solutions of Einstein's equations and up to discretisation error:
            # compared (within a band from one grid refinement) on exact-solution inputs only
            band = fresh.band(key, f[1]) if cfg["inputs"].startswith("sol:") and isinstance(f[1], np.ndarray) else None
            if band is None:
                stats["solution_only_alternatives_skipped"] += 1
                return
            stats["solution_only_alternatives_band"] += 1
            d = within_band(v, f[1], band)
        else:
            stats["algebraic_alternatives"] += 1
            d = same_value(v, f[1], ALG_RTOL)
            try:
                a, b = np.asarray(v, dtype=complex), np.asarray(f[1], dtype=complex)
                fin = np.isfinite(a) & np.isfinite(b)
                if a.shape == b.shape and fin.any():
                    r = float(np.max(np.abs(a[fin] - b[fin])) / (1.0 + np.max(np.abs(b[fin]))))
                    if r > stats["max_algebraic_rel_diff"]:
                        stats["max_algebraic_rel_diff"] = r
                        stats["max_algebraic_rel_diff_key"] = key
            except Exception:  # noqa
                pass
        if d:
            found[0] += ctx.violation(
                "%s: value of %r after the history differs from a fresh instance (%s; %s)"
                % (tag, key, d, "same alternatives" if same_alt else "different alternatives"),
                {"kind": "history", "cfg": cfg, "ops": ops[: i + 1], "key": key, "difference": d},
                {"site": "value", "cause": cause_of(cfg, key, info), "key": key, "inputs": cfg["inputs"]})

    rel, fails = C03.execute(cfg, ops, on_value=on_value, watch_values=True)
    for f in fails:
        # exceptions in the history that a fresh instance does not raise
        what = str(f[0])
        if what.startswith(("RecursionError", "KeyError", "AttributeError", "ValueError", "TypeError", "IndexError")) \
                and isinstance(f[1], list) and f[1][0] == "get":
            fr = fresh.get(f[1][1])
            if fr[0] == "exc" and what.startswith(fr[1]):
                stats["same_exception_as_fresh"] += 1
                continue
        found[0] += ctx.violation("%s: %s %s" % (tag, f[0], f[1:]),
                                  {"kind": "history", "cfg": cfg, "ops": ops, "failure": [str(x) for x in f]},
                                  dict(C03.fingerprint(f), inputs=cfg["inputs"]))
    return rel, found[0]


ALG_RTOL = 1e-11      # observed between algebraically equivalent alternatives: <= 2e-15


def gen_ops(rng, nreq, keys, inputs=()):
    """requests and setting changes; importance overrides only on non-input keys
    (giving an input a positive importance un-freezes it: not an eviction of a frozen input)"""
    ops = []
    hot = rng.sample(keys, min(len(keys), rng.randrange(6, 30)))
    free = [k for k in hot if k not in inputs] or [k for k in keys if k not in inputs]
    for _ in range(nreq):
        r = rng.random()
        if r < 0.86:
            ops.append(["get", rng.choice(hot) if rng.random() < 0.7 else rng.choice(keys)])
        elif r < 0.90:
            ops.append(["period", rng.randrange(1, 6)])
        elif r < 0.94:
            ops.append(["thr", rng.choice(C03.THRESHOLDS)])
        elif r < 0.98:
            ops.append(["imp", rng.choice(free), rng.choice(C03.IMPORTANCE)])
        else:
            ops.append(["cleanup"])
    return ops


def guard_keys(g):
    if g[0] == "pres":
        return [g[1]]
    if g[0] == "not":
        return guard_keys(g[1])
    if g[0] in ("and", "or"):
        return guard_keys(g[1]) + guard_keys(g[2])
    return []


def targeted(info, rng, keys):
    """For every (method, guard): request the keys the guard mentions, pin some of
    them (importance 0, public API), let everything else be evicted by the most
    aggressive settings, then request the guarded key (twice)."""
    out = []

    def tests(sh, acc):
        if sh[0] == "test":
            if guard_keys(sh[1]):
                acc.append(sh[1])
            tests(sh[2], acc)
            tests(sh[3], acc)
        elif sh[0] in ("read", "peek"):
            tests(sh[2], acc)
        elif sh[0] == "rep":
            tests(sh[3], acc)
    for k, sh in info["shapes"].items():
        gs = []
        tests(sh, gs)
        seen = []
        for g in gs:
            gk = [x for x in guard_keys(g) if x in info["shapes"]]
            if not gk or gk in seen:
                continue
            seen.append(gk)
            for pin in (gk, gk[:1], []):
                ops = [["period", 1], ["thr", 0.25]]
                ops += [["get", x] for x in gk]
                ops += [["imp", x, 0] for x in pin]
                ops += [["get", rng.choice(keys)] for _ in range(3)]
                ops += [["get", k], ["get", rng.choice(keys)], ["get", rng.choice(keys)], ["get", k]]
                ops += [["get", x] for x in gk]
                out.append((k, ops))
    return out


def direct_reads(info):
    deps = {}
    for k, sh in info["shapes"].items():
        d = []
        depgraph.walk_shape(sh, [], lambda r, g, d=d: (None if r in d else d.append(r)),
                            lambda p, g, d=d: (None if p in d else d.append(p)))
        deps[k] = [x for x in d if x in info["shapes"]]
    return deps


# cache settings under which a fault in a cached entry is NOT healed by eviction
GENTLE = ({"period": 20, "thr_scalars": 10 ** 6}, {"period": 10 ** 6, "thr_scalars": 10 ** 9})
# families of inputs / physical options for the dependency histories
FAMILIES = (
    {"inputs": "tensors", "vacuum": False, "Lambda": 0.3},      # fluid: rho0, eps, press, velocity
    {"inputs": "fluid_T", "vacuum": False, "Lambda": 0.3},      # energy-stress tensor supplied
    {"inputs": "vacuumlike", "vacuum": True, "Lambda": 0.0},
    {"inputs": "tensors", "vacuum": False, "Lambda": 0.0},
)


def dependency_histories(info, rng, nkeys, nconsumers=10):
    """For each key K of a sample: request K first, then re-request everything K reads
    and the consumers of what K reads (from the generated DepGraph): a value K's
    computation left behind in the cache (stale, aliased, modified in place) is then
    compared with a fresh instance, directly and through its consumers."""
    deps = direct_reads(info)
    cons = {}
    for k, d in deps.items():
        for x in d:
            cons.setdefault(x, []).append(k)
    big = sorted((k for k in deps if len(deps[k]) >= 3), key=lambda k: -info["rank"][k])
    always = [k for k in ("st_Riemann_down4", "Kretschmann", "st_Weyl_down4", "st_Ricci_down4", "Weyl_Psi") if k in deps]
    pool = [k for k in big if k not in always]
    sample = always + rng.sample(pool, min(len(pool), max(0, nkeys - len(always))))
    out = []
    for K in sample:
        cs = []
        for x in deps[K]:
            for c in cons.get(x, []):
                if c != K and c not in cs:
                    cs.append(c)
        rng.shuffle(cs)
        ops = [["get", K]] + [["get", x] for x in deps[K]] + [["get", c] for c in cs[:nconsumers]] + [["get", K]]
        out.append((K, ops))
    return out


def search(ctx, info, nhist, nreq):
    keys = C03.description_keys()
    stats = dict.fromkeys(("compared", "same_alternatives", "algebraic_alternatives",
                           "solution_only_alternatives_skipped", "solution_only_alternatives_band", "max_algebraic_rel_diff", "fresh_raises", "same_exception_as_fresh"), 0)
    runs = []
    found = 0
    # targeted histories: the two that exposed the (now fixed) Momentum cycle and eps = -1, then all guards
    fixed = [
        ("momentum-cycle", {"inputs": "tensors"},
         [["period", 1], ["thr", 0.25], ["get", "Momentumx"], ["imp", "Momentumx", 0], ["get", "Hamiltonian"],
          ["get", "s_RicciS"], ["get", "Momentumup3"], ["get", "Momentumy"], ["get", "Momentumz"],
          ["imp", "Momentumy", 0], ["imp", "Momentumz", 0], ["get", "Ktrace"], ["get", "s_RicciS"],
          ["get", "Momentumup3"], ["get", "Momentumx_norm"]]),
        ("eps-after-rho", {"inputs": "rho0zeros"},
         [["period", 1], ["thr", 0.25], ["get", "rho"], ["imp", "rho", 0], ["get", "Ktrace"], ["get", "gammadet"],
          ["get", "s_RicciS"], ["get", "eps"], ["get", "enthalpy"], ["get", "rho0"], ["get", "eps"]]),
        ("rho0-from-rho", {"inputs": "rho_only"},
         [["period", 1], ["thr", 0.25], ["get", "rho0"], ["get", "Ktrace"], ["get", "gammadet"], ["get", "eps"],
          ["get", "rho0"], ["get", "enthalpy"], ["get", "eps"]]),
    ]
    base = {"N": 8, "order": 2, "variant": 0, "vacuum": False, "Lambda": 0.0, "tetrad": "quasi-Kinnersley", "period": 1,
            "thr_scalars": 0.25, "drop": []}
    fixed.append(("s_to_st-partial-shift", {"inputs": "partial_shift", "vacuum": True, "period": 20, "thr_scalars": 10 ** 6},
                  [["get", "betaup3"], ["get", "st_Weyl_down4"]]))
    for tag, over, ops in fixed:
        cfg = dict(base, **over)
        rel, n = oracle_history(ctx, cfg, ops, tag, stats, info)
        found += n
        runs.append((cfg, ops, rel))
    tg = targeted(info, ctx.rng, keys)
    ctx.cov["targeted_guard_histories_available"] = len(tg)
    ctx.rng.shuffle(tg)
    ntg = min(len(tg), ctx.budget(60, len(tg)))
    for k, ops in tg[:ntg]:
        cfg = dict(base, inputs=ctx.rng.choice(["tensors", "components", "rho0zeros", "rho_only", "noshift",
                                                "sol:Collins_Stewart", "sol:Collins_Stewart", "sol:Non_diagonal"]),
                   order=ctx.rng.choice((2, 4)), vacuum=ctx.rng.random() < 0.15)
        if cfg["inputs"].startswith("sol:"):
            cfg["vacuum"] = False
        rel, n = oracle_history(ctx, cfg, ops, "guard of " + k, stats, info)
        found += n
        runs.append((cfg, ops, rel))
    # dependency histories under gentle cache settings (aggressive eviction heals faults in cached entries)
    dh = dependency_histories(info, ctx.rng, ctx.budget(14, 60))
    ctx.cov["dependency_histories"] = 0
    nalways = 5
    for j, (K, ops) in enumerate(dh):
        if ctx.tier == "thorough" or j < nalways:
            # the big curvature keys: every matter family under BOTH gentle settings (with period 20 the
            # clean-up at count 20 already evicts most of what a 21-calculation request leaves behind)
            combos = [(f, g) for f in FAMILIES[:3] for g in GENTLE]
        else:
            combos = [(FAMILIES[j % 2], GENTLE[1]), (FAMILIES[2 + j % 2], GENTLE[0])]
        for ci, (fam, gentle) in enumerate(combos):
            cfg = dict(base, **fam)
            cfg.update(gentle)
            if ctx.tier == "thorough":
                cfg["order"] = ctx.rng.choice((2, 4))
            ops_ = ops
            if K == "Weyl_Psi" and ci % 2 == 0:
                # an off-centre tetrad / extraction centre, and afterwards the quantities that read the grid's
                # coordinates (the FiniteDifference object is shared state outside the cache)
                cfg["center"] = [0.25, -0.125, 0.5]
                ops_ = ops + [["get", "null_ray_exp_out"], ["get", "null_ray_exp_in"], ["get", "Weyl_Psi"]]
            ops = ops_
            rel, n = oracle_history(ctx, cfg, ops, "dependencies of " + K, stats, info)
            found += n
            runs.append((cfg, ops, rel))
            ctx.cov["dependency_histories"] += 1
    for h in range(nhist):
        cfg = C03.gen_config(ctx.rng, ctx.tier)
        if ctx.rng.random() < 0.3:       # also random histories under gentle settings
            cfg.update(ctx.rng.choice(GENTLE))
        inputs = C03.input_keys(cfg)
        ops = gen_ops(ctx.rng, ctx.rng.randrange(nreq // 2, nreq + 1), keys, inputs)
        rel, n = oracle_history(ctx, cfg, ops, "random history %d" % h, stats, info)
        found += n
        runs.append((cfg, ops, rel))
    ctx.cov["oracle_histories"] = len(runs)
    ctx.cov["oracle_targeted_histories"] = len(fixed) + ntg
    ctx.cov["oracle"] = stats
    ctx.cov["oracle_evictions"] = sum(r[2]._tr.evictions for r in runs)
    return runs, found


COHERENCE_MODULE = "AurelVerif.Props.C01Coherence"
COHERENCE_THEOREMS = ["AurelVerif.C01Coherence." + t for t in (
    "metric_components_coherent", "metric_tensor_coherent", "curvature_components_coherent",
    "shift_components_coherent", "component_defaults", "s_to_st_coherent", "Ttrace_coherent")] + [
    "AurelVerif.C08.gt_coherent", "AurelVerif.C08.gdet_coherent", "AurelVerif.C09.eos_consistent"]
# extension round: class (a) algebraic / class (c) on-shell coherence theorems, the sharper generic theorem, and the
# sub-table for which H2 is proven outright (see the header comments of the Lean files)
COHERENCE_A_MODULE = "AurelVerif.Props.C01CoherenceA"
COHERENCE_A_THEOREMS = ["AurelVerif.C01Coherence." + t for t in (
    "s_Ricci_down3_coherent", "Momentumup3_components_coherent", "s_to_st_coherent_fun",
    "st_Riemann_down4_shift_coherent", "st_Weyl_down4_shift_coherent", "eps_coherent_of_rho",
    "eps_coherent_of_rho0", "rho0_coherent", "st_Ricci_down3_coherent_of_T")] + [
    "AurelVerif.C04.st_Ricci_down3_coherent", "AurelVerif.C06.Momentumup3_from_components",
    "AurelVerif.C05.s_Ricci_down3_alt_spec"]
COHERENCE_C_MODULE = "AurelVerif.Props.C01CoherenceC"
COHERENCE_C_THEOREMS = ["AurelVerif.C01Coherence." + t for t in (
    "contraction_is_ricciDown", "st_Ricci_down4_dflt_is_ricci", "st_Ricci_down4_Tdown4_is_matter",
    "st_Ricci_down4_onshell_coherent", "st_Ricci_down4_onshell_coherent_noshift", "st_Ricci_down4_vacuum_coherent",
    "st_Ricci_down3_onshell_coherent", "exOn_hyp", "exOn_cached", "exOn_onshell", "exKas_ricci_full", "exKasV_hyp",
    "exKasM_hyp", "exKasM_onshell")]
# extension round 2: the guard 'st_Riemann_down4' in self.data.keys() of st_Weyl_down4 (Riemann-based vs E/B-based Weyl tensor);
# the theorems live with property C10 (Props/C10Coh.lean, namespace AurelVerif.C10) and are audited here as well
COHERENCE_W_MODULE = "AurelVerif.Props.C10Coh"
COHERENCE_W_THEOREMS = ["AurelVerif.C10." + t for t in (
    "weyl_is_weylEB_of_parts", "weyl_constructions_agree", "weyl_constructions_agree_vacuum",
    "st_Weyl_down4_onshell_coherent", "st_Weyl_down4_coherent_contraction", "st_Weyl_down4_vacuum_coherent",
    "st_Weyl_down4_onshell_coherent_noshift", "st_Weyl_down4_vacuum_coherent_noshift")]
SHARP_MODULE = "AurelVerif.Props.C01M"
SHARP_THEOREMS = ["AurelVerif.C01." + t for t in (
    "get_transparent_sharp", "history_values_sharp", "tableCoh_implies_sharp", "flag_guard_constant",
    "methodless_guard_constant", "aurel_methodless", "tExM_cohM", "tExM_not_coh")]
SUB_MODULE = "AurelVerif.Props.C01Sub"
SUB_THEOREMS = ["AurelVerif.C01Sub." + t for t in (
    "TSub_shapes_generated", "denSub_inputs", "sub_cohM", "sub_transparent", "polAggr_ok", "polKeep_ok")]
# extension round 5: constructed denotation, generated return-site function table (Gen/C01Table.lean), H2 reduced to
# the guarded bodies, hypothesis-free transparency of the 124-key sub-table closed under reads
DEN_LEMMAS = "AurelVerif.Lemmas.CacheDen"
TAB_MODULE = "AurelVerif.Props.C01Tab"
TAB_THEOREMS = ["AurelVerif.CacheGet." + t for t in (
    "denI_stable", "denOf_unfold", "cohM_auto", "tableCohM_of_guarded", "cohM_test")] + [
    "AurelVerif.C01Tab." + t for t in (
        "TTab_ok", "rankOf_lt", "aurel_guarded", "aurel_unguarded_stable", "den_inputs", "den_unfold")]
TABT_MODULE = "AurelVerif.Props.C01TabT"
TABT_THEOREMS = ["AurelVerif.C01Tab." + t for t in (
    ["coh_%d" % k for k in (3, 4, 5, 7, 8, 9, 15, 16, 17, 18, 19, 20, 27, 28, 29, 30, 40, 41, 42, 43, 44, 45, 58, 60)]
    + ["tab_cohM", "tab_transparent", "sub124_closed", "hardCoh_124", "sub124_transparent", "sub124_no_recursion",
       "polAggr_ok", "polKeep_ok"])]
# extension round 6: gdet, Momentumup3, s_Ricci_down3, Ttrace discharged against the constructed denotation (hypotheses
# about the inputs only), HardCoh shrinks to HardCoh4, sub-tables of 125 / 139 / 147 keys
LOC_LEMMAS = "AurelVerif.Lemmas.C01Loc"
TABG_MODULE = "AurelVerif.Props.C01TabG"
TABG_THEOREMS = ["AurelVerif.C01Tab." + t for t in (
    "cons_of_absent", "sym_21_of_absent", "metricCons_of_absent", "assembled_E", "gammadet_E", "coh_33")]
TABH_MODULE = "AurelVerif.Props.C01TabH"
TABH_THEOREMS = ["AurelVerif.C01Loc." + t for t in (
    "loc_s_Riemann_uddd3", "loc_s_Riemann_down3", "loc_s_Ricci_down3_alt", "loc_s_Ricci_down3_dflt", "loc_gup4",
    "loc_gammaup3", "loc_gammaup4", "loc_nup4", "loc_rho_n", "loc_press_n", "loc_Ttrace_dflt", "loc_Ttrace_Tdown4")] + [
    "AurelVerif.C01Tab." + t for t in (
        "momCons_of_absent", "coh_152", "gammaup3_E", "inv_E", "coh_116", "gup4_E", "coh_82")]
TABX_MODULE = "AurelVerif.Props.C01TabX"
TABX_THEOREMS = ["AurelVerif.C01Tab." + t for t in (
    "hardCoh_of", "sub125_closed", "sub139_closed", "sub147_closed", "hardCoh_125", "hardCoh_139", "hardCoh_147",
    "sub125_transparent", "sub139_transparent", "sub139_transparent_plain", "sub147_transparent",
    "tab_transparent_inputs", "inputsOK_of_absent", "inputsOK_ex", "metricCons_ex")]
# st_Riemann_down4: return sites generated (Gen/CoreBig_st_Riemann_down4), test in mid-body, coherent for every input
TABR_MODULE = "AurelVerif.Props.C01TabR"
TABR_THEOREMS = ["AurelVerif.CacheGet.cohM_test_vs", "AurelVerif.CacheGet.feasibleM_nor4_true"] + [
    "AurelVerif.C01Loc." + t for t in (
        "loc_st_Riemann_down4_betaup3_matter", "loc_st_Riemann_down4_dflt_matter",
        "loc_st_Riemann_down4_betaup3_vacuum", "loc_st_Riemann_down4_dflt_vacuum")] + [
    "AurelVerif.C01Tab." + t for t in ("betaup3_zero", "coh_120", "hardCoh4_of", "tab_transparent_inputs3")]
# extension round 7: st_Ricci_down4 (122) and st_Ricci_down3 (123) discharged ON SHELL against the constructed denotation
# (return site of st_Riemann_uddd4 generated); HardCoh3 shrinks to HardCoh1 = st_Weyl_down4; 155-key sub-table on shell with
# no hypothesis about a body; non-vacuity at the Kasner point (Props/C01TabSEx.lean)
TABS_MODULE = "AurelVerif.Props.C01TabS"
TABS_THEOREMS = ["AurelVerif.C01Loc." + t for t in (
    "loc_Ktrace", "loc_st_Riemann_uddd4", "loc_st_Ricci_down4_dflt", "loc_st_Ricci_down4_Tdown4",
    "loc_st_Ricci_down3_dflt", "loc_st_Ricci_down3_cached")] + [
    "AurelVerif.C01Tab." + t for t in (
        "gup4c_E", "Ktrace_E", "ric3_E", "mainardi_E", "R3_E", "Ru_E", "eval_120", "Rd_E_matter", "Rd_E_vacuum",
        "Ttrace_key_E", "Ttrace_E", "coh_122", "coh_123", "hardCoh3_of", "sub155_closed", "hardCoh_155",
        "sub155_transparent_onshell", "tab_transparent_onshell_partial")]
TABSEX_MODULE = "AurelVerif.Props.C01TabSEx"
TABSEX_THEOREMS = ["AurelVerif.C01Tab." + t for t in (
    "cohM_const", "evalShape_const", "jetK", "jetCK", "k_ricci", "k_T", "k_curv", "k_onshell", "k_inputs", "k_shell",
    "k_shell_vacuum", "k_hard1")]


def necessity_witnesses(ctx):
    """The input-consistency hypotheses of C01Tab.coh_33 (MetricCons) and coh_152 (MomCons) are NECESSARY: replay, on the
    real code, one inconsistent input dictionary for each (a derived name supplied with a value the code would not
    compute from the other inputs).  These are not violations of the property (the 'input spacetime' is not one)."""
    try:
        import numpy as np
        from aurel import core, finitedifference
        n = 6
        fd = finitedifference.FiniteDifference(
            {"Nx": n, "Ny": n, "Nz": n, "xmin": 0., "ymin": 0., "zmin": 0., "dx": 1 / n, "dy": 1 / n, "dz": 1 / n},
            verbose=False)
        one = np.ones((n, n, n))

        def mk(d):
            rel = core.AurelCore(fd, verbose=False)
            rel.data.update(d)
            rel.freeze_data()
            return rel
        a = mk({"gtt": 5 * one})
        fresh = float(np.ravel(a["gdet"])[0])
        b = mk({"gtt": 5 * one})
        b["gdown4"]
        after = float(np.ravel(b["gdet"])[0])
        c = mk({"Momentumx": 5 * one})
        mfresh = [float(x) for x in np.array(c["Momentumup3"])[:, 0, 0, 0]]
        d = mk({"Momentumx": 5 * one})
        d["Momentumy"], d["Momentumz"]
        d.data.pop("Momentumup3", None)           # what an eviction does
        d.last_accessed.pop("Momentumup3", None)
        mafter = [float(x) for x in np.array(d["Momentumup3"])[:, 0, 0, 0]]
        ctx.cov["necessity_witnesses"] = {"inputs {gtt=5}": {"gdet fresh": fresh, "gdet after gdown4": after},
                                          "inputs {Momentumx=5}": {"Momentumup3 fresh": mfresh,
                                                                   "after Momentumy, Momentumz, eviction": mafter}}
        ctx.obligation("necessity witnesses of the input hypotheses MetricCons / MomCons replay on the real code",
                       fresh != after and mfresh != mafter,
                       "gdet %r vs %r; Momentumup3 %r vs %r" % (fresh, after, mfresh, mafter), kind="correspondence")
    except Exception as ex:  # noqa
        ctx.obligation("necessity witnesses of the input hypotheses MetricCons / MomCons replay on the real code", False,
                       "could not be replayed: %r" % ex, kind="correspondence")


COHERENCE_NEEDED = ["gxx", "gxy", "gxz", "gyy", "gyz", "gzz", "gammadown3", "kxx", "kxy", "kxz", "kyy", "kyz", "kzz",
                    "Kdown3", "betax", "betay", "betaz", "betaup3", "dtbetax", "dtbetay", "dtbetaz", "dtbetaup3",
                    "s_to_st", "Ttrace", "gtt", "gtx", "gty", "gtz", "gdet", "rho0", "eps", "rho",
                    "s_Ricci_down3", "s_Riemann_down3", "s_Riemann_uddd3", "Momentumup3", "Momentumx", "Momentumy",
                    "Momentumz", "st_Riemann_down4", "st_Riemann_uddd4", "st_Ricci_down4", "st_Ricci_down3",
                    "st_Weyl_down4"]
COHERENCE_LEAN_FILES = ["AurelVerif/Props/C01Coherence.lean", "AurelVerif/Props/C01CoherenceA.lean",
                        "AurelVerif/Props/C01CoherenceC.lean", "AurelVerif/Props/C10Coh.lean", "AurelVerif/Props/C01M.lean",
                        "AurelVerif/Props/C01Sub.lean", "AurelVerif/Lemmas/CacheGetM.lean", "AurelVerif/Lemmas/CacheDen.lean",
                        "AurelVerif/Props/C01Tab.lean", "AurelVerif/Props/C01TabT.lean", "AurelVerif/Gen/C01Table.lean",
                        "AurelVerif/Lemmas/C01Loc.lean", "AurelVerif/Props/C01TabG.lean", "AurelVerif/Props/C01TabH.lean",
                        "AurelVerif/Props/C01TabX.lean", "AurelVerif/Props/C01TabR.lean", "AurelVerif/Lemmas/C01LocR.lean",
                        "AurelVerif/Lemmas/CacheDenMid.lean", "AurelVerif/Lemmas/C01LocS.lean",
                        "AurelVerif/Props/C01TabS.lean", "AurelVerif/Props/C01TabSEx.lean"]

# --------------------------------------------------------------------------
# the coherence table: every guard of the source -> class -> covering theorems
# --------------------------------------------------------------------------
# class  a        algebraically coherent: equal for every input / field / operator D, given that the cached entries
#                 read were produced by the code's own formulas (hypotheses e.X = X e) [and gamma^-1 gamma = 1]
#        b        coherent only up to discretisation (Leibniz / commuting D): no guard is of this class alone; every
#                 class c theorem is also Layer B (CurvHyp)
#        c        coherent only on solutions of Einstein's equations (explicit hypothesis OnShell) and Layer B
#        option   physical option, constant along a history: nothing to prove beyond C01.flag_guard_constant
#        input-only  presence test of a name without a method: constant along a history (C01.methodless_guard_constant)
# fields: methods  = methods that may test this guard (a guard text met in another method is UNCOVERED)
#         covers   = generated alternatives (translator index names) whose agreement the theorems establish
#         mention  = those of `covers` that must occur textually in the statement of one of the `decls`
#         decls    = (Lean file, declaration) whose statement (theorem) / body (def, structure) is searched
#         gap      = explanation when NO theorem covers the guard (known gap: the oracle is the only cover)
P = "AurelVerif/Props/"
_COMPONENT_DECLS = [(P + "C01Sub.lean", "leafSub"), (P + "C01Sub.lean", "sub_cohM")]


def _alts(keys, sufs):
    return [k + "__" + s for k in keys for s in sufs]


COHERENCE_TABLE = [
    {"guard": "'betaup3' in self.data", "class": "a", "methods": ["betax", "betay", "betaz"],
     "covers": _alts(["betax", "betay", "betaz"], ["dflt", "betaup3"]),
     "theorems": ["AurelVerif.C01Coherence.shift_components_coherent", "AurelVerif.C01Coherence.component_defaults",
                  "AurelVerif.C01Sub.sub_cohM"],
     "decls": [(P + "C01Coherence.lean", "shift_components_coherent")] + _COMPONENT_DECLS,
     "note": "H2 proven outright for the sub-table (no hypothesis on the bodies): C01Sub.sub_transparent"},
    {"guard": "'dtbetaup3' in self.data", "class": "a", "methods": ["dtbetax", "dtbetay", "dtbetaz"],
     "covers": _alts(["dtbetax", "dtbetay", "dtbetaz"], ["dflt", "dtbetaup3"]),
     "theorems": ["AurelVerif.C01Coherence.shift_components_coherent", "AurelVerif.C01Sub.sub_cohM"],
     "decls": [(P + "C01Coherence.lean", "shift_components_coherent")] + _COMPONENT_DECLS,
     "note": "sub-table: C01Sub.sub_transparent"},
    {"guard": "'gammadown3' in self.data", "class": "a", "methods": ["gxx", "gxy", "gxz", "gyy", "gyz", "gzz"],
     "covers": _alts(["gxx", "gxy", "gxz", "gyy", "gyz", "gzz"], ["dflt", "gammadown3"]),
     "theorems": ["AurelVerif.C01Coherence.metric_components_coherent", "AurelVerif.C01Coherence.metric_tensor_coherent",
                  "AurelVerif.C01Coherence.component_defaults", "AurelVerif.C01Sub.sub_cohM"],
     "decls": [(P + "C01Coherence.lean", "metric_components_coherent")] + _COMPONENT_DECLS,
     "note": "sub-table: C01Sub.sub_transparent"},
    {"guard": "'Kdown3' in self.data", "class": "a", "methods": ["kxx", "kxy", "kxz", "kyy", "kyz", "kzz"],
     "covers": _alts(["kxx", "kxy", "kxz", "kyy", "kyz", "kzz"], ["dflt", "Kdown3"]),
     "theorems": ["AurelVerif.C01Coherence.curvature_components_coherent", "AurelVerif.C01Sub.sub_cohM"],
     "decls": [(P + "C01Coherence.lean", "curvature_components_coherent")] + _COMPONENT_DECLS,
     "note": "sub-table: C01Sub.sub_transparent"},
    {"guard": "'gdown4' in self.data", "class": "a", "methods": ["gdet", "gtt", "gtx", "gty", "gtz"],
     "covers": _alts(["gtt", "gtx", "gty", "gtz", "gdet"], ["dflt", "gdown4"]),
     "theorems": ["AurelVerif.C08.gt_coherent", "AurelVerif.C08.gdet_coherent"],
     "decls": [(P + "C08.lean", "gt_coherent"), (P + "C08.lean", "gdet_coherent"), (P + "C08.lean", "Assembled")],
     "note": "needs the assembled metric (C08.Assembled: gtt, gdown4, betadown3, betamag produced by the code; gamma symmetric)"},
    {"guard": "'rho' in self.data", "class": "a", "methods": ["rho0"], "covers": ["rho0__dflt", "rho0__rho"],
     "theorems": ["AurelVerif.C01Coherence.rho0_coherent", "AurelVerif.C09.eos_consistent", "AurelVerif.C01Sub.sub_cohM"],
     "decls": [(P + "C01CoherenceA.lean", "rho0_coherent")] + _COMPONENT_DECLS,
     "note": "sub-table: C01Sub.sub_transparent (all input combinations of rho0, eps, rho, incl. rho0 = 0)"},
    {"guard": "'rho' in self.data and 'rho0' in self.data", "class": "a", "methods": ["eps"],
     "covers": ["eps__dflt", "eps__rho_and_rho0"],
     "theorems": ["AurelVerif.C01Coherence.eps_coherent_of_rho", "AurelVerif.C01Coherence.eps_coherent_of_rho0",
                  "AurelVerif.C09.eos_consistent", "AurelVerif.C01Sub.sub_cohM"],
     "decls": [(P + "C01CoherenceA.lean", "eps_coherent_of_rho"), (P + "C01CoherenceA.lean", "eps_coherent_of_rho0")]
     + _COMPONENT_DECLS,
     "note": "sub-table: C01Sub.sub_transparent"},
    {"guard": "'Tdown4' not in self.data", "class": "a", "methods": ["Ttrace"], "covers": ["Ttrace__dflt", "Ttrace__Tdown4"],
     "theorems": ["AurelVerif.C01Coherence.Ttrace_coherent"], "decls": [(P + "C01Coherence.lean", "Ttrace_coherent")],
     "note": "needs the 3+1 form g^ab = gamma^ab - n^a n^b of the cached inverse metric (C04.gup4_3p1: alpha != 0, det gamma != 0)"},
    {"guard": "'s_Riemann_down3' in self.data.keys()", "class": "a", "methods": ["s_Ricci_down3"],
     "covers": ["s_Ricci_down3__dflt", "s_Ricci_down3__s_Riemann_down3"],
     "theorems": ["AurelVerif.C01Coherence.s_Ricci_down3_coherent", "AurelVerif.C05.s_Ricci_down3_alt_spec"],
     "decls": [(P + "C01CoherenceA.lean", "s_Ricci_down3_coherent")],
     "note": "exact for every operator D; needs gamma^-1 gamma = 1"},
    {"guard": "all((k in self.data.keys() for k in ('Momentumx', 'Momentumy', 'Momentumz')))", "class": "a",
     "methods": ["Momentumup3"],
     "covers": ["Momentumup3__Momentumx_and_Momentumy_and_Momentumz", "Momentumup3__dflt_matter", "Momentumup3__dflt_vacuum"],
     "mention": ["Momentumup3__Momentumx_and_Momentumy_and_Momentumz"],
     "theorems": ["AurelVerif.C01Coherence.Momentumup3_components_coherent", "AurelVerif.C06.Momentumup3_from_components"],
     "decls": [(P + "C01CoherenceA.lean", "Momentumup3_components_coherent")],
     "note": "the components read the cached vector back (whichever alternative produced it)"},
    {"guard": "not any((k in self.data for k in ('betaup3', 'betax', 'betay', 'betaz')))", "class": "a",
     "methods": ["s_to_st", "st_Riemann_down4", "st_Weyl_down4"],
     "covers": ["s_to_st__dflt", "s_to_st__betaup3", "st_Riemann_down4__dflt_matter", "st_Riemann_down4__betaup3_matter",
                "st_Riemann_down4__dflt_vacuum", "st_Riemann_down4__betaup3_vacuum", "st_Weyl_down4__dflt",
                "st_Weyl_down4__betaup3"],
     "theorems": ["AurelVerif.C01Coherence.s_to_st_coherent", "AurelVerif.C01Coherence.st_Riemann_down4_shift_coherent",
                  "AurelVerif.C01Coherence.st_Weyl_down4_shift_coherent"],
     "decls": [(P + "C01Coherence.lean", "s_to_st_coherent"), (P + "C01CoherenceA.lean", "st_Riemann_down4_shift_coherent"),
               (P + "C01CoherenceA.lean", "st_Weyl_down4_shift_coherent")],
     "note": "beta = 0 is the denotation of betaup3 when no shift key is supplied (component defaults)"},
    {"guard": "'st_Ricci_down4' in self.data.keys()", "class": "a / c", "methods": ["st_Ricci_down3"],
     "covers": ["st_Ricci_down3__dflt", "st_Ricci_down3__st_Ricci_down4"],
     "theorems": ["AurelVerif.C01Coherence.st_Ricci_down3_coherent_of_T", "AurelVerif.C01Coherence.st_Ricci_down3_onshell_coherent"],
     "decls": [(P + "C01CoherenceA.lean", "st_Ricci_down3_coherent_of_T"), (P + "C01CoherenceC.lean", "st_Ricci_down3_onshell_coherent")],
     "note": "class a when the cached st_Ricci_down4 came from Tdown4; class c (on shell, Layer B) when it is the "
             "contraction of the cached Riemann tensor"},
    {"guard": "'Tdown4' in self.data.keys()", "class": "c", "methods": ["st_Ricci_down4"],
     "covers": ["st_Ricci_down4__dflt", "st_Ricci_down4__Tdown4"],
     "theorems": ["AurelVerif.C01Coherence.st_Ricci_down4_onshell_coherent",
                  "AurelVerif.C01Coherence.st_Ricci_down4_onshell_coherent_noshift",
                  "AurelVerif.C01Coherence.st_Ricci_down4_vacuum_coherent"],
     "decls": [(P + "C01CoherenceC.lean", "st_Ricci_down4_onshell_coherent")],
     "note": "on solutions of Einstein's equations only (hypothesis OnShell), exact differentiation (CurvHyp); false off shell"},
    {"guard": "'st_Riemann_down4' in self.data.keys()", "class": "c", "methods": ["st_Weyl_down4"],
     "covers": ["st_Weyl_down4__st_Riemann_down4_matter", "st_Weyl_down4__st_Riemann_down4_vacuum"],
     "theorems": ["AurelVerif.C10.st_Weyl_down4_onshell_coherent", "AurelVerif.C10.st_Weyl_down4_coherent_contraction",
                  "AurelVerif.C10.st_Weyl_down4_vacuum_coherent", "AurelVerif.C10.st_Weyl_down4_onshell_coherent_noshift",
                  "AurelVerif.C10.st_Weyl_down4_vacuum_coherent_noshift", "AurelVerif.C10.weyl_constructions_agree",
                  "AurelVerif.C10.weyl_constructions_agree_vacuum", "AurelVerif.C10.weyl_is_weylEB_of_parts"],
     "decls": [(P + "C10Coh.lean", "st_Weyl_down4_onshell_coherent"), (P + "C10Coh.lean", "st_Weyl_down4_vacuum_coherent")],
     "partial": ["AurelVerif.C10.weyl_alt1_weylLike", "AurelVerif.C10.weyl_alt2_weylLike",
                 "AurelVerif.C10.weyl_alt2_normal_frame"],
     "note": "Riemann-based vs E/B-based Weyl tensor, all 256 components (Props/C10Coh.lean): a tensor with the Riemann "
             "symmetries and vanishing trace is determined by its electric and magnetic parts w.r.t. the normal; those of the "
             "Riemann-based tensor are the code's eweyl_n_down3 / bweyl_n_down3. Layer B (CurvHyp, additive Leibniz operator), "
             "positive lapse (sqrt(-g) = alpha sqrt(gamma)); ON SHELL (hypothesis OnShell) when the cached st_Ricci_down4 came from "
             "Tdown4, on a vacuum solution for vacuum = True; off shell as well when st_Ricci_down4 is the contraction of the "
             "cached Riemann tensor (st_Weyl_down4_coherent_contraction). False off shell in the Tdown4 cache state (the two "
             "differ by the constraint violations) and for a negative lapse (sign of the magnetic part)."},
    {"guard": "self.vacuum", "class": "option",
     "methods": ["Hamiltonian", "Hamiltonian_Escale", "Momentum_Escale", "Momentumup3", "dtAdown3_bssnok", "dtKtrace",
                 "dts_Gamma_bssnok", "eweyl_n_down3", "st_Riemann_down4", "st_Weyl_down4"],
     "covers": [], "theorems": ["AurelVerif.C01.flag_guard_constant"], "decls": [],
     "note": "constant along a history; the two values are different quantities, not alternatives"},
    {"guard": "self.tetrad == 'quasi-Kinnersley'", "class": "option", "methods": ["Weyl_Psi", "null_vector_base", "tetrad_base"],
     "covers": [], "theorems": ["AurelVerif.C01.flag_guard_constant"], "decls": [], "note": "constant along a history"},
    {"guard": "'Weyl_Psi4r' in self.data.keys()", "class": "input-only", "methods": ["Weyl_Psi"], "covers": [],
     "theorems": ["AurelVerif.C01.methodless_guard_constant", "AurelVerif.C01.aurel_methodless",
                  "AurelVerif.C01.get_transparent_sharp"], "decls": [],
     "note": "Weyl_Psi4r has no method: cached iff supplied, so the outcome never changes along a history"},
]


def _decl_text(relpath, name):
    """statement of a theorem (text up to the first ':=') or whole body of a def/structure/macro in a Lean file"""
    import os
    import re
    try:
        src = open(os.path.join(fw.LEAN, relpath)).read()
    except OSError:
        return None
    m = re.search(r"^(theorem|def|structure)\s+" + re.escape(name) + r"\b", src, re.M)
    if not m:
        return None
    rest = src[m.start():]
    end = re.search(r"^(theorem|def|structure|example|macro|syntax|end|section|namespace|open|set_option|/--|/-!|@\[)",
                    rest[len(m.group(0)):], re.M)
    body = rest[: len(m.group(0)) + end.start()] if end else rest
    if m.group(1) == "theorem":
        cut = body.find(":=")
        body = body[:cut] if cut >= 0 else body
    return body


def coherence_table(ctx, info, index, proven):
    """Machine-readable table of ALL guards (AST translator) and ALL multi-alternative definitions (symbolic-execution
    translator) of the CURRENT source, with class and covering theorems; anything the registry does not cover is
    reported (evidence `coherence_table.uncovered`) and is a broken obligation."""
    import re
    rows, uncovered = [], []
    reg = {r["guard"]: r for r in COHERENCE_TABLE}
    # alternatives recorded by the symbolic-execution translator, per key (presence-guarded ones only)
    alts = {}
    for i in index:
        if i.get("status") == "ok" and "__" in i["name"]:
            alts.setdefault(i["key"], []).append(i)
    need = {}        # alternative name -> key, for keys whose alternatives depend on the cache content
    for k, lst in alts.items():
        if any(i.get("guard_keys") for i in lst):
            for i in lst:
                need[i["name"]] = k
    covered_by = {}
    for g in sorted(set(info["guards"]) | set(reg)):
        r = reg.get(g)
        meths = sorted(info["guards"].get(g, []))
        if r is None:
            uncovered.append("guard %r (tested in %s): no registered coherence theorem" % (g, meths))
            rows.append({"guard": g, "tested_in": meths, "class": "UNREGISTERED", "theorems": [], "status": "UNCOVERED"})
            continue
        problems = []
        if g not in info["guards"]:
            problems.append("guard no longer in the source")
        extra = [m for m in meths if m not in r["methods"]]
        if extra:
            problems.append("also tested in %s (no coherence theorem for those methods)" % extra)
        texts = []
        for f, d in r["decls"]:
            t = _decl_text(f, d)
            if t is None:
                problems.append("declaration %s not found in %s" % (d, f))
            else:
                texts.append(t)
        text = "\n".join(texts)
        for a in r.get("mention", r["covers"]):
            if not re.search(r"\b" + re.escape(a) + r"\b", text):
                problems.append("alternative %s is not mentioned by %s" % (a, [d for _, d in r["decls"]]))
        for a in r["covers"]:
            if a not in need and not r.get("gap"):
                problems.append("alternative %s is no longer generated" % a)
            covered_by.setdefault(a, []).append(g)
        unproven = [t for t in r["theorems"] if not proven.get(t)]
        if unproven:
            problems.append("not proven now: %s" % unproven)
        status = "known gap (oracle only)" if r.get("gap") else ("proven" if not problems else "BROKEN")
        if problems:
            uncovered.append("guard %r: %s" % (g, "; ".join(problems)))
            status = "BROKEN"
        rows.append({"guard": g, "tested_in": meths, "class": r["class"], "alternatives": r["covers"],
                     "theorems": r["theorems"], "partial_theorems": r.get("partial", []), "status": status,
                     "note": r.get("gap") or r.get("note", "")})
    gaps = {a for r in COHERENCE_TABLE if r.get("gap") for a in r["covers"]}
    for a, k in sorted(need.items()):
        if a not in covered_by:
            uncovered.append("alternative %s of %s (generated from the current source): no coherence theorem" % (a, k))
            rows.append({"guard": "?", "tested_in": [k], "class": "UNREGISTERED", "alternatives": [a], "theorems": [],
                         "status": "UNCOVERED"})
    flag_only = sorted(k for k, lst in alts.items() if not any(i.get("guard_keys") for i in lst))
    ctx.cov["coherence_table"] = {
        "rows": rows, "uncovered": uncovered,
        "classes": {c: sorted(r["guard"] for r in rows if r["class"] == c) for c in sorted({r["class"] for r in rows})},
        "alternatives_needing_coherence": len(need), "alternatives_with_theorem": len([a for a in need if a in covered_by and a not in gaps]),
        "alternatives_known_gap": sorted(a for a in need if a in gaps),
        "keys_whose_alternatives_differ_by_option_only": flag_only,
        "sub_table_with_H2_proven_outright": "124 keys closed under reads with NO hypothesis (C01Tab.sub124_transparent, constructed "
                                             "denotation, generated return-site table Gen/C01Table.lean); 125 (+gdet) / 139 "
                                             "(+Momentumup3 and its 13 dependents) / 147 keys (+Ttrace, s_Ricci_down3 and their "
                                             "dependents) under hypotheses about the INPUTS only (C01Tab.sub125_transparent, "
                                             "sub139_transparent[_plain], sub147_transparent: consistency of redundantly supplied "
                                             "derived names, alpha != 0, det gamma != 0); outside: st_Riemann_down4 (coherent for "
                                             "every input: C01Tab.coh_120), the three class (c) bodies st_Ricci_down4, "
                                             "st_Ricci_down3, st_Weyl_down4 and the 10 keys that read them; ON SHELL 155 keys "
                                             "(all but st_Weyl_down4 and the 5 keys that read it) with no hypothesis about a "
                                             "body: C01Tab.sub155_transparent_onshell (coh_122, coh_123); "
                                             "25 keys with a hand-written denotation (C01Sub.sub_transparent)",
        "full_table": "C01Tab.tab_transparent_inputs3: all 161 keys under InputsOK (inputs) and HardCoh3 = branch coherence of "
                      "st_Ricci_down4, st_Ricci_down3, st_Weyl_down4 only (C01Tab.tab_transparent: under HardCoh, 8 bodies); "
                      "ON SHELL (ShellHyp: CurvHyp + Einstein's equations for the jet assembled from the denotations) "
                      "C01Tab.sub155_transparent_onshell: 155 keys (all but st_Weyl_down4 and the 5 keys that read it), NO "
                      "hypothesis about a body; C01Tab.tab_transparent_onshell_partial: all 161 keys under HardCoh1 = coherence of "
                      "the body of st_Weyl_down4 only"}
    ctx.obligation("coherence coverage: every guard and every cache-dependent alternative of the current source has a "
                   "proven coherence theorem (%d guards, %d alternatives, %d known gap)"
                   % (len(info["guards"]), len(need), len([a for a in need if a in gaps])),
                   not uncovered, "; ".join(uncovered)[:1800], kind="translation")
    return rows


def run(ctx):
    ctx.trusted += ["Lean 4.33 kernel; axioms propext, Classical.choice, Quot.sound",
                    "py2lean/depgraph.py (AST -> shapes; validated on every run against the real nested request traces)",
                    "Model/CacheGet.lean and Model/Cache.lean are hand-written; the bookkeeping model is tied to the real "
                    "AurelCore by trace replay (as C03)",
                    "numpy is deterministic: the same sequence of operations on the same inputs gives the same bits"]
    ctx.assumptions += [
        "values are immutable (no in-place modification of cached arrays): property C02",
        "branch coherence H2 (hypothesis TableCoh / TableCohM of the generic theorem) for the real formulas: one row per "
        "guard in evidence `coherence_table` (generated from the translators' indices of the CURRENT source). Class a "
        "(algebraic) and class c (on solutions of Einstein's equations, exact differentiation) rows are Lean theorems about "
        "the generated formulas; for 25 keys (component/tensor keys, rho0/eps/rho) H2 is proven outright and the transparency "
        "theorem has no hypothesis left about the bodies (C01Sub.sub_transparent). NOT a theorem: Riemann-based vs E/B-based "
        "st_Weyl_down4 (row `known gap`); the class a / c theorems are stated per guard with hypotheses `e.X = X e` (cached entry "
        "produced by the code's formula) and are not assembled into ONE TableCoh instance for the whole 161-key table. The "
        "search oracle compares the real values",
        "oracle tolerances: bitwise when history and fresh instance used the same alternatives everywhere in the "
        "computation tree; %g relative when only algebraically equivalent alternatives differ; alternatives that agree "
        "only on solutions of Einstein's equations (st_Ricci_down4, st_Ricci_down3, st_Weyl_down4, Weyl_Psi with Psi4 "
        "given) are compared on the exact solutions shipped with aurel (Collins_Stewart, Non_diagonal, "
        "Rosquist_Jantzen at t = 1.5) within a band of 10 x the change of the fresh value under one grid refinement, and "
        "are not compared on the generic (non-solution) hand-made fields" % ALG_RTOL,
        "after every request every entry still cached is re-hashed: an entry modified in place is reported (explains a "
        "history dependence; overlaps with C02)"]
    info = None
    try:
        changed, info = depgraph.regen()
        det = "regenerated (changed=%s): %d keys, %d helper shapes, %d guards, max rank %d" % (
            changed, len(info["shapes"]), len(info["helper_shapes"]), len(info["guards"]), max(info["rank"].values()))
        ctx.obligation("py2lean:depgraph", True, det, kind="translation")
        if info["cycles"]:
            ctx.obligation("py2lean:depgraph rank certificate", False,
                           "dependency cycle through not-guaranteed reads: %s" % info["cycles"][:3], kind="translation")
        if info["bad_peeks"]:
            ctx.obligation("py2lean:depgraph guarded direct accesses", False,
                           "self.data[...] not covered by a guard: %s" % info["bad_peeks"][:5], kind="translation")
        new = sorted(g for g in info["guards"] if g not in KNOWN_GUARDS)
        ctx.obligation("guards have registered coherence obligations", not new,
                       "new guard(s) without coherence obligation: %s" % new, kind="translation")
        ctx.cov["guards_in_source"] = {
            g: {"tested_in": info["guards"][g], "kind": KNOWN_GUARDS.get(g, "UNREGISTERED")} for g in sorted(info["guards"])}
        ctx.cov["opaque_value_tests"] = info["flags"]
        ctx.cov["input_only_names"] = info["extra"]
        ctx.sample({"generated_shape": "gtt", "shape": str(info["shapes"]["gtt"])})
        ctx.sample({"generated_shape": "Momentumup3", "shape": str(info["shapes"]["Momentumup3"])[:400]})
    except Exception as ex:  # noqa
        ctx.obligation("py2lean:depgraph", False, "translation failed: %r" % ex, kind="translation")
    ctx.prove(MODULE, THEOREMS)
    ctx.forbidden_scan(LEAN_FILES)
    # branch coherence (H2) of the REAL formulas: theorems about the alternatives regenerated from
    # core.py by symbolic execution (see Props/C01Coherence{,A,C}.lean, Props/C01M.lean, Props/C01Sub.lean)
    try:
        from lib import corecheck
        r = corecheck.regen_and_validate(ctx, COHERENCE_NEEDED)
        if r is not None:
            ctx.prove(COHERENCE_MODULE, COHERENCE_THEOREMS, timeout=2400)
            ctx.prove(COHERENCE_A_MODULE, COHERENCE_A_THEOREMS, timeout=2400)
            ctx.prove(COHERENCE_C_MODULE, COHERENCE_C_THEOREMS, timeout=2400)
            ctx.prove(COHERENCE_W_MODULE, COHERENCE_W_THEOREMS, timeout=2400)
            ctx.prove(SHARP_MODULE, SHARP_THEOREMS, timeout=2400)
            ctx.prove(SUB_MODULE, SUB_THEOREMS, timeout=2400)
            if info is not None:
                # the return-site function table, regenerated from BOTH translators' outputs of the current source
                try:
                    from py2lean import c01table
                    tchanged, tmeta = c01table.regen(info, r[2], r[1])
                    ctx.cov["return_site_table"] = {"generated_keys": tmeta["generated_keys"],
                                                    "return_sites": tmeta["return_sites"],
                                                    "keys_left_arbitrary": tmeta["skipped"],
                                                    "guarded_keys": tmeta["guarded"]}
                    ctx.obligation("py2lean:c01table", tmeta["generated_keys"] >= 100,
                                   "regenerated (changed=%s): %d keys, %d return sites mapped to traced alternatives; %d keys "
                                   "left arbitrary (%s)" % (tchanged, tmeta["generated_keys"], tmeta["return_sites"],
                                                            len(tmeta["skipped"]), ", ".join(sorted(tmeta["skipped"]))[:300]),
                                   kind="translation")
                except Exception as ex:  # noqa
                    ctx.obligation("py2lean:c01table", False, "generation failed: %r" % ex, kind="translation")
                ctx.prove(TAB_MODULE, TAB_THEOREMS, timeout=2400)
                ctx.prove(TABT_MODULE, TABT_THEOREMS, timeout=2400)
                ctx.prove(TABG_MODULE, TABG_THEOREMS, timeout=2400)
                ctx.prove(TABH_MODULE, TABH_THEOREMS, timeout=2400)
                ctx.prove(TABX_MODULE, TABX_THEOREMS, timeout=2400)
                ctx.prove(TABR_MODULE, TABR_THEOREMS, timeout=2400)
                ctx.prove(TABS_MODULE, TABS_THEOREMS, timeout=2400)
                ctx.prove(TABSEX_MODULE, TABSEX_THEOREMS, timeout=2400)
                necessity_witnesses(ctx)
            ctx.forbidden_scan(COHERENCE_LEAN_FILES)
            if info is not None:
                proven = {o["name"]: o["ok"] for o in ctx.obligs if o["kind"] == "theorem"}
                coherence_table(ctx, info, r[2], proven)
        elif info is not None:
            ctx.obligation("coherence coverage", False, "the core translator failed: the alternatives of the current "
                           "source are unknown", kind="translation")
    except Exception as ex:  # noqa
        ctx.obligation("coherence theorems", False, "could not be checked: %r" % ex)
    if ctx.tier == "thorough":
        ctx.leanchecker([MODULE, SHARP_MODULE, SUB_MODULE, TAB_MODULE, TABT_MODULE, TABG_MODULE, TABH_MODULE, TABX_MODULE, TABR_MODULE, TABS_MODULE,
                         TABSEX_MODULE])
    # correspondence (bookkeeping) — shared harness with C03
    runs = C03.correspondence(ctx, "C01", ctx.budget(12, 60), ctx.budget(30, 60))
    # independent search oracle (always; larger when something is broken)
    extra = 3 if ctx.broken() else 1
    runs2, found = ([], 0)
    if info is not None:
        runs2, found = search(ctx, info, ctx.budget(35, 250) * extra, ctx.budget(30, 60))
        validate_shapes(ctx, info, runs + runs2)


def replay(ctx, obj):
    if "cfg" not in obj:
        print("replay: not a history replay (kind=%s): %s" % (obj.get("kind"), obj.get("what")))
        return 1
    stats = dict.fromkeys(("compared", "same_alternatives", "algebraic_alternatives",
                           "solution_only_alternatives_skipped", "solution_only_alternatives_band", "max_algebraic_rel_diff", "fresh_raises", "same_exception_as_fresh"), 0)
    n0 = len(ctx.violations) + len(ctx.known)
    try:
        info = depgraph.analyse()
    except Exception:  # noqa
        info = None
    oracle_history(ctx, obj["cfg"], obj["ops"], "replay", stats, info)
    n = len(ctx.violations) + len(ctx.known) - n0
    print("replay: %d failure(s) now; %s" % (n, stats))
    return 1 if n else 0


MANIFEST = {
    "category": "proof",
    "technique": "Lean 4: generic transparency theorem over an abstract definition table and an arbitrary eviction policy; "
                 "kernel-decided rank condition on the dependency graph regenerated from core.py; branch-coherence theorems "
                 "(algebraic / on-shell) about the formulas regenerated from core.py by symbolic execution, with a generated "
                 "guard-coverage table; trace replay and translation validation against the real AurelCore; "
                 "history-vs-fresh-instance oracle",
    "text": "Proof (generic): for every definition table, every frozen input set, every eviction policy that removes only "
            "non-frozen entries (the real clean-up is proven to be one, for every period/threshold/importance), every "
            "finite history and final request, the value returned equals the one a fresh instance returns, given branch "
            "coherence of the alternatives (get_transparent; get_transparent_sharp needs coherence only for test outcomes "
            "that can change along a history: physical options and names without a method, e.g. Weyl_Psi4r, are excluded). "
            "Proof (real code): the dependency graph regenerated from core.py on every run satisfies the rank condition "
            "(kernel-checked), hence no request can recurse without end or hit a missing self.data entry whatever is "
            "evicted. Branch coherence of the real formulas: every one of the 17 guards found in the source is classified "
            "in a table generated on every run (evidence coherence_table) and, except one, covered by Lean theorems about "
            "the generated alternatives: algebraic coherence (equal for every input, field and difference operator, given "
            "that the cached entries were produced by the code's formulas) for the component/tensor keys, gtt..gdet, "
            "rho0/eps/rho, Ttrace, s_Ricci_down3, Momentumup3, the zero-shift shortcut inside s_to_st, st_Riemann_down4 and "
            "st_Weyl_down4 (all 256 components), st_Ricci_down3 from a Tdown4-based st_Ricci_down4; coherence on solutions of "
            "Einstein's equations (explicit hypothesis OnShell, exact differentiation) for st_Ricci_down4 (contraction of the "
            "cached Riemann tensor vs Lambda g + kappa (T - T g/2)) and st_Ricci_down3 from it. For a sub-table of 25 keys "
            "(betax..betaup3, dtbetax..dtbetaup3, gxx..gammadown3, kxx..Kdown3, rho0, eps, rho) with the generated shapes "
            "and the generated formulas, coherence is proven for EVERY input dictionary and the transparency theorem holds "
            "with no hypothesis about the bodies (C01Sub.sub_transparent). Extension round 5: the denotation is CONSTRUCTED from "
            "the table and the inputs (Lemmas/CacheDen.lean: value of the bodies when presence tests see only the inputs; "
            "well-defined by the kernel-checked rank certificate), so that branch coherence is AUTOMATIC for the 129 bodies "
            "that test no presence of a key with a method, whatever their formulas (tableCohM_of_guarded, aurel_guarded); "
            "tools/py2lean/c01table.py generates the return-site function table Gen/C01Table.lean (149 keys, 190 return sites since round 6: "
            "return site -> traced alternative of Gen/CoreKeys|CoreCurv applied to the values read, the finite-difference "
            "operator D, kappa, Lambda as parameters; the other formulas arbitrary); coherence of 24 of the 32 guarded bodies "
            "(betax.., dtbetax.., gxx.., kxx.., gtt, gtx, gty, gtz, rho0, eps) is proven from these generated formulas for "
            "every input dictionary. Hence C01Tab.sub124_transparent: for the real table restricted to 124 keys closed under "
            "reads (sub124_closed), every field, every D, every option valuation, every input dictionary, every admissible "
            "eviction policy, every history, the value returned is the one a fresh instance returns - no hypothesis about "
            "the bodies; C01Tab.tab_transparent: the same for all 161 keys under HardCoh = branch coherence of the 8 "
            "remaining guarded bodies. Extension round 6 (Props/C01TabG|H|X|R.lean, Lemmas/C01Loc|C01LocR|CacheDenMid.lean): "
            "five of those 8 are discharged against the constructed denotation by connecting the per-guard theorems "
            "(C08.gdet_coherent, C01Coherence.Ttrace_coherent, s_Ricci_down3_coherent, Momentumup3_components_coherent, "
            "st_Riemann_down4_shift_coherent) to the environment E of the denotation through locality lemmas of the generated "
            "definitions: coh_33 (gdet), coh_82 (Ttrace), coh_116 (s_Ricci_down3), coh_152 (Momentumup3) under hypotheses "
            "about the INPUTS only - a derived name that is supplied redundantly (gtt, betamag, betadown3, gammadet, gup4, "
            "gammaup3, gammaup4, nup4, rho_n, press_n, s_Riemann_uddd3, Momentumx|y|z) has the value the code computes from "
            "the other inputs (Cons; void when the name is not supplied), gamma symmetric, and for Ttrace/s_Ricci_down3 "
            "alpha != 0, det gamma != 0, 3 != 0; the consistency hypotheses are necessary (inputs {gtt=5}: gdet -1 fresh, 5 "
            "after gdown4; inputs {Momentumx=5}: Momentumup3 (0,0,0) fresh, (5,0,0) after Momentumy, Momentumz and an "
            "eviction - both replayed on the real code on every run); coh_120 (st_Riemann_down4, 256 components, presence "
            "test in mid-body; its four return sites are now generated) with NO hypothesis. Hence sub125_transparent, "
            "sub139_transparent (sub139_transparent_plain: no hypothesis at all when none of gtt, betamag, betadown3, "
            "gammadet, gammadown3, Momentumx|y|z is supplied), sub147_transparent (sub-tables closed under reads: "
            "sub125|139|147_closed) and tab_transparent_inputs3: all 161 keys, every history, policy, D, option valuation, "
            "under InputsOK and HardCoh3 = coherence of the three class (c) bodies st_Ricci_down4, st_Ricci_down3, "
            "st_Weyl_down4 only. Extension round 7 (Props/C01TabS.lean, C01TabSEx.lean, Lemmas/C01LocS.lean; the return site of "
            "st_Riemann_uddd4 is now generated: 150 keys, 191 return sites): two of those three are discharged ON SHELL against "
            "the constructed denotation - coh_122 (st_Ricci_down4: Lambda g + kappa (T - T g/2) vs contraction of the Riemann "
            "tensor) and coh_123 (st_Ricci_down3: spatial block of st_Ricci_down4 vs the Einstein-equation form), for vacuum = "
            "False and vacuum = True, shift key supplied or not, Tdown4 supplied or computed from the fluid variables. Their "
            "hypothesis ShellHyp is about the environment E of the denotation, the operator D and the inputs only: CurvHyp E T "
            "(Layer B: Leibniz/commuting D, metric-compatible connection, the denotation of s_Riemann_down3 is the textbook "
            "3-Riemann tensor), Einstein's equations for the jet assembled from the denotations of alpha, beta, gamma, K, "
            "dtalpha, dtbetaup3 and free second time derivatives T (OnShell E T; with vacuum = True: Ricci-flat, Tdown4 = 0, "
            "Lambda = 0), and consistency (Cons, void when not supplied) of Ktrace, Ttrace, s_Ricci_down3, st_Riemann_uddd4, "
            "st_Riemann_down4, st_Ricci_down3 when supplied as inputs; every cached-entry hypothesis `e.X = X e` of the per-guard "
            "theorems of Props/C01CoherenceC.lean (MainardiCached, RicciChain, hRd, hTt, hR4) is DERIVED from the unfolding "
            "equation of the denotation with locality lemmas (gup4c_E, Ktrace_E, ric3_E, R3_E, Ru_E, Rd_E_matter|vacuum, "
            "Ttrace_E). Hence sub155_transparent_onshell: the real table without st_Weyl_down4, Weyl_Psi, Psi4_lm, "
            "Weyl_invariants, eweyl_u_down4, bweyl_u_down4 (155 keys, closed under reads: sub155_closed), every field, every "
            "D and T with CurvHyp, every input dictionary with InputsOK that solves Einstein's equations, every admissible "
            "policy, every history: the value returned is the denotation = what a fresh instance returns - no hypothesis "
            "about any body; tab_transparent_onshell_partial: all 161 keys under HardCoh1 = coherence of the body of "
            "st_Weyl_down4 alone. Non-vacuity at the Kasner point (non-zero Riemann tensor; Tdown4 computed from a fluid of "
            "zero density and pressure, so both outcomes of the guards occur): k_inputs, k_shell, k_hard1. "
            "A guard or cache-dependent alternative that "
            "appears in the source without a registered, proven theorem is reported as uncovered and breaks an obligation.",
    "note": "Trusted: Lean kernel + standard axioms; the AST translator of the dependency shapes (validated against every "
            "recorded real miss); the symbolic-execution translator of the formulas (translation validation each run); the "
            "hand models (trace replay). NOT proven: the body of st_Weyl_down4 (Riemann-based vs E/B-based construction; "
            "per-guard theorems Props/C10Coh.lean: T13e off shell, T13f on shell, T13g vacuum, T13h no shift) is NOT discharged "
            "against the constructed denotation: it enters C01Tab.tab_transparent_onshell_partial as the hypothesis HardCoh1, and "
            "the 6 keys st_Weyl_down4, Weyl_Psi, Psi4_lm, Weyl_invariants, eweyl_u_down4, bweyl_u_down4 are outside the 155-key "
            "on-shell theorem. Missing, precisely: (1) its return sites cannot be generated - the body calls s_to_st three "
            "times, each testing `not any(shift key in self.data)`; return sites 3 and 4 are reached only when that test "
            "changes its outcome between two calls of ONE body (eviction of betaup3 in between) and no traced alternative of "
            "Gen/CoreBig_st_Weyl_down4 has such a presence set (c01table.site_map rejects the key; needs two more traced "
            "alternatives from the core translator); (2) nested presence tests of keys with a method after reads: "
            "cohM_test_vs at each of the three tests with betaup3_zero + st_Weyl_down4_shift_coherent (pattern of coh_120); (3) "
            "Cons + locality lemma for st_RicciS, Stressup3_n, Stressdown3_n, eweyl_n_down3, bweyl_n_down3, nup4, ndown4, gdet "
            "to derive the remaining cached-entry hypotheses of C10.st_Weyl_down4_*_coherent (the others are available: "
            "mainardi_E, R3_E, Rd_E_*, Ttrace_E), the analytic part of C10.EBCached (sqrt exact on -g, positive lapse, "
            "MetricOK, Deriv D) staying a hypothesis on E. The on-shell theorems (coh_122, coh_123, sub155_transparent_onshell) "
            "carry Layer-B hypotheses (CurvHyp: exact differentiation - the real finite-difference operators satisfy them up "
            "to truncation error only) and Einstein's equations for the assembled jet: off shell the alternatives of "
            "st_Ricci_down4 / st_Ricci_down3 differ by O(100) on generic smooth fields (DESIGN 11.7), so the hypothesis is "
            "necessary; without them: C01Tab.tab_transparent_inputs3 (hypothesis HardCoh3) and the 147-key theorem; for gdet, Ttrace, "
            "s_Ricci_down3, Momentumup3 the theorems carry hypotheses about the inputs (InputsOK: consistency of redundantly "
            "supplied derived names - necessary, see the replayed witnesses; regular metric for Ttrace/s_Ricci_down3 - "
            "det gamma != 0 is sufficient, not shown necessary); the return-site formulas of 11 keys ("
            "st_Riemann_uudd4, st_Weyl_down4, Kretschmann, eweyl_u_down4, bweyl_u_down4, Weyl_Psi, Psi4_lm, Weyl_invariants, "
            "dtconserved, ...) are the arbitrary parameter `rest` (every theorem holds for every choice); "
            "in Gen/C01Table a key read several times in one body is represented by its "
            "first read (immaterial for the theorems: all reads return the denotation); numerical closeness (discretisation error) of the class c alternatives; that the data solve "
            "Einstein's equations. In-place mutation is C02.",
}
