"""C14 — over_time equals independent per-step computation, correctly ordered.

Proof side: Model/Table.lean (hand-written, literal after time.py) and the
theorems of Props/C14.lean: per_step / per_step_builtin / no_leakage (T1),
estimates / scalar_keys (T2), sorted_together_partial + the witness theorem
sorted_together_full_is_false + nothing_new_returns_input (T3),
split_invariance / split_of_sequence + split_any_order_is_false (T4),
single_row, temporal_key_* (T5).  The split theorem covers consecutive splits
of vars ++ estimates.  Props/C14b.lean adds: T4b split_last_call_has_all_estimates /
split_full_estimates (every call passes estimates, the last call all of them: the
final table is the single-call table as a dict; full_estimates_exact_is_false: the
column ORDER differs), T4c later_calls_keep_columns +
split_without_feedback_is_false (a custom variable defined in a LATER call than a
built-in that reads it: witness replayed here as `press_n` then a custom `press`),
T1b one_row_function / step_noninterference(_any_kwargs), T3b
columns_permuted_together / input_columns_preserved(_always).

Tie B (correspondence): the real `aurel.over_time` is run on small grids with
per-row inputs that differ in every row, rows in random order, every choice
of temporal key(s), built-in keys and TAGGED custom functions / estimators,
split over 1-3 successive calls.  Every output cell is canonicalised to the
identity of the reference it equals (`calc(Ktrace,row3)`,
`est(max,calc(Ktrace,row3))`, `in(alpha,row3)` ...); reference cells come from
a fresh `AurelCore` per (row, name) built here.  The canonical table is
compared, column order included, with the symbolic table printed by
Driver/C14.lean for the same scenario.

Custom variables are frozen inputs of the step: scenarios with custom functions
named like built-in keys (`press`, `rho0`, `eps`, `alpha` when it is not an
input), 5-14 built-ins that read them, `clear_cache_every_nbr_calc` 1-5 passed
through over_time, the custom entry first / in the middle / last; the model's
identities carry the custom values explicitly
(`calc(press_n,row3|press=cust(fp,row3))`) and the reference is a fresh
AurelCore that holds them as frozen inputs, clean-up disabled.

Search oracle (independent of the model): the same fresh-AurelCore
references, a stable sort of the row tags written here, and the one-call run
of the real code for split-invariance.
"""
import contextlib
import copy
import hashlib
import io
import json

import numpy as np

from lib import fw

MODULE = "AurelVerif.Props.C14"
THEOREMS = ["AurelVerif.C14." + t for t in (
    "per_step", "per_step_frozen_customs", "per_step_builtin", "no_leakage", "estimates", "scalar_keys",
    "sorted_together_partial", "sorted_together_full_is_false", "nothing_new_returns_input",
    "split_invariance", "split_of_sequence", "splitHyp_t1", "split_any_order_is_false",
    "single_row", "temporal_key_last_wins", "temporal_key_cases", "no_temporal_key_raises")]
MODULE_B = "AurelVerif.Props.C14b"
THEOREMS_B = ["AurelVerif.C14." + t for t in (
    "split_last_call_has_all_estimates", "split_full_estimates", "split_full_estimates_plain", "splitHypD_t1", "splitHypD_E2",
    "full_estimates_exact_is_false",
    "later_calls_keep_columns", "splitHypNoFb_E2", "split_without_feedback_is_false",
    "one_row_function", "step_noninterference", "step_noninterference_any_kwargs",
    "columns_permuted_together", "input_columns_preserved", "input_columns_preserved_always")]
LEAN_FILES = ["AurelVerif/Props/C14.lean", "AurelVerif/Props/C14b.lean", "AurelVerif/Lemmas/Table.lean",
              "AurelVerif/Lemmas/C14FullRow.lean", "AurelVerif/Lemmas/C14Full.lean", "AurelVerif/Lemmas/C14Full2.lean",
              "AurelVerif/Lemmas/C14FullIndep.lean",
              "AurelVerif/Lemmas/C14Stale.lean", "AurelVerif/Lemmas/C14Perm.lean", "AurelVerif/Model/Table.lean",
              "Driver/C14.lean"]

TEMPORAL = ["it", "iteration", "t", "time"]
BUILTINS = ["gammadet", "Ktrace", "gammaup3", "Kup3", "A2", "Adown3", "gtt", "betamag", "s_RicciS",
            "gdet", "gdown4", "betadown3", "psi_bssnok", "kxx", "gxy", "Aup3", "nup4", "rho_n",
            "null_ray_exp_in"]
# custom functions named like built-in keys (their values must be frozen inputs of the step) ...
SHADOW = {"press": "fp", "rho0": "fr0", "eps": "fe", "alpha": "fal"}
# ... and built-ins that read them
DEP_POOL = ["press_n", "Stresstrace_n", "enthalpy", "Tdown4", "Ttrace", "rho_n", "Hamiltonian", "Momentumx",
            "Momentumy", "Momentumz", "dtKtrace", "Stressdown3_n", "Hamiltonian_Escale", "conserved_D",
            "eps", "rho0", "press", "udown4", "hdown4", "gup4"]
# (fluxup3_n, conserved_Sdown3, angmomup3_n, anisotropic_press_down3_n are pure round-off (1e-17) on
# these inputs: their value identifies nothing, they are left out)
EST_BUILTIN = ["max", "min", "mean", "median", "sum", "std", "maxabs", "x0y0z0", "x1y0z1", "x1y1z1"]


# ----------------------------------------------------------------- tagged functions
def _fa(rel):
    return 3.0 * rel["alpha"] + 0.5 * rel["gammadet"]


def _fb(rel):
    return rel["Kdown3"] * 2.0 + 1.0


def _fc(rel):
    return rel["Ktrace"] * rel["alpha"] - 7.0


def _fd(rel):
    return rel["alpha"] * rel.myfac + rel["gammadet"]


def _fg(rel):          # reads ANOTHER custom variable (`c1`) when the step's AurelCore holds one
    # (through its mean: the result is a 3-D scalar whatever the rank of `c1`)
    return 1.5 * rel["alpha"] + (0.7 * float(np.mean(rel.data["c1"])) if "c1" in rel.data else 0.25)


def _fh(rel):          # reads the custom variables `c2` and `myvar` when present (chains c1 -> c2 -> c3)
    out = 0.3 * rel["gammadet"] + 2.0
    if "c2" in rel.data:
        out = out + 0.45 * float(np.mean(rel.data["c2"]))
    if "myvar" in rel.data:
        out = out - 0.2 * float(np.mean(rel.data["myvar"]))
    return out


def _fp(rel):          # a custom `press` (EOS-like): the built-in default is zeros
    return 0.2 * rel["alpha"] ** 2 + 0.01 * rel["gammadet"]


def _fr0(rel):         # a custom `rho0`
    return 0.6 * rel["alpha"] + 0.05 * rel["gammadet"]


def _fe(rel):          # a custom `eps`
    return 0.1 * rel["gammadet"] + 0.02 * rel["alpha"]


def _fal(rel):         # a custom `alpha` for tables without an `alpha` column (default: ones)
    return 1.1 + 0.05 * rel["gammadet"]


def _bad2(rel, extra):
    return rel["alpha"]


def _badraise(rel):
    return rel["no_such_key_zz"]


def _ta(a):
    return 2.0 * a[1, 2, 3] + a[0, 0, 0]


def _tb(a):
    return a[2, 1, 0] - 3.0 * a[-1, -1, -1]


def _badarr(a):
    return a[0]


def _bad2p(a, b):
    return 0.0


# tag -> (callable, valid)
VF = {"fa": (_fa, True), "fb": (_fb, True), "fc": (_fc, True), "fd": (_fd, True),
      "fg": (_fg, True), "fh": (_fh, True),
      "fp": (_fp, True), "fr0": (_fr0, True), "fe": (_fe, True), "fal": (_fal, True),
      "bad2": (_bad2, False), "badraise": (_badraise, False)}
EF = {"ta": (_ta, True), "tb": (_tb, True), "badarr": (_badarr, False), "bad2p": (_bad2p, False)}


def bare_function(rel):      # used for the "any other object" request item
    return rel["alpha"]


# ----------------------------------------------------------------- inputs
_FD = {}


def get_fd(N):
    import aurel
    if N not in _FD:
        param = {"Nx": N, "Ny": N, "Nz": N, "xmin": 0.0, "ymin": 0.0, "zmin": 0.0,
                 "dx": 1.0, "dy": 1.0, "dz": 1.0}
        _FD[N] = aurel.FiniteDifference(param, fd_order=2, verbose=False)
    return _FD[N]


def input_cell(N, col, j, tval=None):
    """The input of column `col` for row tag j: different in every row."""
    fd = get_fd(N)
    x, y, z = fd.cartesian_coords
    s = 1 + 0.13 * j
    if col == "gammadown3":
        g = np.zeros((3, 3, N, N, N))
        for a in range(3):
            g[a, a] = s * (1 + 0.05 * np.sin(0.7 * x + a + j) + 0.02 * np.cos(0.4 * z))
        g[0, 1] = g[1, 0] = 0.03 * s * np.cos(0.5 * y + j)
        g[1, 2] = g[2, 1] = 0.02 * s * np.sin(0.3 * z - j)
        return g
    if col == "Kdown3":
        K = -(0.2 + 0.03 * j) * input_cell(N, "gammadown3", j)
        K[0, 2] = K[2, 0] = 0.01 * (j + 1) * np.cos(0.6 * x)
        return K
    if col == "alpha":
        return 1.0137 + 0.07 * j + 0.01 * np.sin(x + j + 0.3)
    if col == "rho":
        return 0.5171 + 0.11 * j + 0.02 * np.cos(y + 0.2)
    if col == "betaup3":
        return np.array([0.01 * (j + 1) * np.sin(0.5 * y), 0.02 * np.cos(0.3 * z + j), 0.0 * x + 0.003 * (j + 1)])
    if col == "mass":
        return 100.0 + j
    if col.endswith("_PRE"):       # never used
        return -1000.0 - j
    if "_" in col and col.split("_")[0] in ("alpha", "rho"):   # pre-existing estimate column
        return -500.0 - 3 * j - len(col)
    raise KeyError(col)


def build_table(sc):
    """The caller's dict of lists for scenario sc (fresh objects every time)."""
    N = sc["N"]
    data = {}
    for col in sc["cols"]:
        if col in sc["tvals"]:
            vals = sc["tvals"][col]
            data[col] = [(0.5 * v if col in ("t", "time") else int(v)) for v in vals]
        else:
            data[col] = [input_cell(N, col, j) for j in sc["order"]]
    return data


def item_to_py(item, which):
    reg = VF if which == "v" else EF
    if item == "@":
        return bare_function
    if isinstance(item, dict):
        return {n: reg[tag][0] for n, tag in item["dict"]}
    return item


def item_to_line(item):
    if item == "@":
        return "@"
    if isinstance(item, dict):
        return "{" + "&".join("%s=%s" % (n, tag) for n, tag in item["dict"]) + "}"
    return item


def quiet():
    return contextlib.redirect_stdout(io.StringIO())


def run_real(sc, calls=None):
    """Run the successive calls of the scenario on the real code.
    Returns (result dict | exception name, caller-dict-modified?)."""
    import aurel
    fd = get_fd(sc["N"])
    data = build_table(sc)
    snap = snapshot(data)
    cur = data
    err = None
    with quiet(), contextlib.redirect_stderr(io.StringIO()):
        for call in (calls if calls is not None else sc["calls"]):
            try:
                cur = aurel.over_time(cur, fd,
                                      vars=[item_to_py(i, "v") for i in call["vars"]],
                                      estimates=[item_to_py(i, "e") for i in call["ests"]],
                                      verbose=False, **sc["kwargs"])
            except Exception as ex:  # noqa
                err = type(ex).__name__
                break
    modified = snapshot(data) != snap
    return (err if err else cur), modified


def snapshot(data):
    out = []
    for k, col in data.items():
        cells = []
        for c in col:
            if isinstance(c, np.ndarray):
                cells.append((id(c), c.shape, hashlib.sha1(np.ascontiguousarray(c).tobytes()).hexdigest()))
            else:
                cells.append((type(c).__name__, repr(c)))
        out.append((k, id(col), len(col), cells))
    return out


# ----------------------------------------------------------------- references
class Refs:
    """Reference cells from a fresh AurelCore per (row, name)."""

    def __init__(self, sc):
        self.sc = sc
        self.N = sc["N"]
        self.fd = get_fd(self.N)
        self.table = build_table(sc)          # input cells by table position
        self.pos = {j: p for p, j in enumerate(sc["order"])}
        self.cache = {}

    def fresh(self, j, frozen=None):
        """A fresh AurelCore holding the inputs of row j (and `frozen` values) as frozen
        inputs; the periodic clean-up is disabled in the reference."""
        import aurel
        kw = dict(self.sc["kwargs"])
        kw["clear_cache_every_nbr_calc"] = 10 ** 9
        rel = aurel.AurelCore(self.fd, verbose=False, **kw)
        p = self.pos[j]
        for col in self.sc["cols"]:
            rel.data[col] = self.table[col][p]
        for k, v in (frozen or {}).items():
            rel.data[k] = v
        rel.freeze_data()
        return rel

    def value(self, cid):
        """The reference value of an identity string (None if it has none), e.g.
        calc(press_n,row3|press=cust(fp,row3)): built-in of a fresh AurelCore holding the
        inputs of row 3 and the listed custom values as frozen inputs."""
        if cid in self.cache:
            return self.cache[cid]
        try:
            v = self._value(cid)
        except Exception:  # noqa
            v = None
        self.cache[cid] = v
        return v

    def _value(self, cid):
        head, _, body = cid.partition("(")
        if not body.endswith(")"):
            return None
        body = body[:-1]
        a, rest = split_first(body, ",")
        if head == "in":
            return self.inp(a, int(rest[3:])) if rest.startswith("row") and rest[3:].isdigit() else None
        if head in ("est", "estc"):
            arr = self.value(rest)
            return None if arr is None else self.est(head, a, arr)
        if head in ("calc", "cust"):
            rowpart, entries = split_first(rest, "|")
            if not (rowpart.startswith("row") and rowpart[3:].isdigit()):
                return None
            frozen = {}
            for ent in (split0(entries, ";") if entries else []):
                k, _, vid = ent.partition("=")
                val = self.value(vid)
                if val is None:
                    return None
                frozen[k] = val
            rel = self.fresh(int(rowpart[3:]), frozen)
            with quiet():
                return np.array(rel[a]) if head == "calc" else np.array(VF[a][0](rel))
        return None

    def inp(self, col, j):
        return self.table[col][self.pos[j]]

    def calc(self, name, j):
        k = ("calc", name, j)
        if k not in self.cache:
            with quiet():
                self.cache[k] = np.array(self.fresh(j)[name])
        return self.cache[k]

    def cust(self, tag, j):
        k = ("cust", tag, j)
        if k not in self.cache:
            with quiet():
                self.cache[k] = np.array(VF[tag][0](self.fresh(j)))
        return self.cache[k]

    def est(self, kind, e, arr):
        import aurel
        f = aurel.time.est_functions[e] if kind == "est" else EF[e][0]
        return f(np.ascontiguousarray(arr))


def split_first(s, sep):
    """Split at the first `sep` at parenthesis depth 0 -> (before, after or '')."""
    depth = 0
    for i, ch in enumerate(s):
        if ch == "(":
            depth += 1
        elif ch == ")":
            depth -= 1
        elif ch == sep and depth == 0:
            return s[:i], s[i + 1:]
    return s, ""


def same(a, b):
    """Equality of a cell with a reference (arrays or scalars): 1 = exact, 2 = up to
    round-off (1e-9 relative, 1e-10 of the reference's largest entry absolute: AurelCore
    takes different arithmetic paths depending on which keys are in its data, e.g. when a
    column computed by an earlier call is handed back; values of different rows differ at
    the 1e-2 level)."""
    a = np.asarray(a)
    b = np.asarray(b)
    if a.shape != b.shape:
        return 0
    try:
        if np.array_equal(a, b):
            return 1
        if a.dtype.kind in "fc" and b.dtype.kind in "fc":
            scale = float(np.max(np.abs(b))) if b.size else 0.0
            if scale > 0 and np.allclose(a, b, rtol=1e-9, atol=1e-10 * scale):
                return 2
    except Exception:  # noqa
        return 0
    return 0


def all_refs(sc, refs):
    """id -> value for everything a cell of this scenario could legitimately be."""
    out = {}
    three = []
    for col in sc["cols"]:
        for j in sc["order"]:
            v = refs.inp(col, j)
            out["in(%s,row%d)" % (col, j)] = v
            if np.ndim(v) == 3:
                three.append("in(%s,row%d)" % (col, j))
    for name in sc["bi_used"]:
        for j in sc["order"]:
            v = refs.calc(name, j)
            out["calc(%s,row%d)" % (name, j)] = v
            if np.ndim(v) == 3:
                three.append("calc(%s,row%d)" % (name, j))
    for tag in sc["cf_used"]:
        if not VF[tag][1]:
            continue
        for j in sc["order"]:
            v = refs.cust(tag, j)
            out["cust(%s,row%d)" % (tag, j)] = v
            if np.ndim(v) == 3:
                three.append("cust(%s,row%d)" % (tag, j))
    for e in sc["ef_used"]:
        for i in three:
            out["est(%s,%s)" % (e, i)] = refs.est("est", e, out[i])
    for tag in sc["ce_used"]:
        if not EF[tag][1]:
            continue
        for i in three:
            out["estc(%s,%s)" % (tag, i)] = refs.est("estc", tag, out[i])
    return out


def canon_table(result, refd, prefer=None, stats=None, refs=None):
    """Canonical table [(col, [ids])] of a real result (dict of lists/arrays).
    prefer: {(col, i): id} — the id to report when several references are equal."""
    if isinstance(result, str):
        return result
    out = []
    for col, vals in result.items():
        ids = []
        for i in range(len(vals)):
            cell = vals[i]
            want = (prefer or {}).get((col, i))
            hit = None
            wv = None
            if want is not None:
                wv = refd.get(want)
                if wv is None and refs is not None:
                    wv = refs.value(want)
            if wv is not None and same(cell, wv):
                hit = want
                if stats is not None and same(cell, wv) == 2:
                    stats["inexact"] = stats.get("inexact", 0) + 1
            else:
                approx = None
                for rid, rv in refd.items():
                    s = same(cell, rv)
                    if s == 1:
                        hit = rid
                        break
                    if s == 2 and approx is None:
                        approx = rid
                if hit is None and approx is not None:
                    hit = approx
                    if stats is not None:
                        stats["inexact"] = stats.get("inexact", 0) + 1
            ids.append(hit or "UNKNOWN")
        out.append((col, ids))
    return out


def parse_model(line):
    if line.startswith("err "):
        return line[4:]
    assert line.startswith("ok "), line
    out = []
    body = line[3:]
    # cells contain commas inside parentheses: split at depth 0
    for part in split0(body, ";"):
        col, _, cells = part.partition("=")
        out.append((col, split0(cells, ",") if cells else []))
    return out


def split0(s, sep):
    out, depth, cur = [], 0, []
    for ch in s:
        if ch == "(":
            depth += 1
        elif ch == ")":
            depth -= 1
        if ch == sep and depth == 0:
            out.append("".join(cur))
            cur = []
        else:
            cur.append(ch)
    out.append("".join(cur))
    return out


def model_line(sc, refs, calls=None):
    N = sc["N"]
    cols = []
    for col in sc["cols"]:
        if col in sc["tvals"]:
            cols.append("%s:0:%s" % (col, ",".join(str(int(v)) for v in sc["tvals"][col])))
        else:
            r = 3 if sc["order"] and np.ndim(refs.inp(col, sc["order"][0])) == 3 else 0
            cols.append("%s:%d" % (col, r))
    j0 = sc["order"][0] if sc["order"] else None
    bi = ["%s:%d" % (n, 3 if j0 is not None and np.ndim(refs.calc(n, j0)) == 3 else 0) for n in sc["bi_used"]]
    cf = []
    for tag in sc["cf_used"]:
        ok = VF[tag][1]
        cf.append("%s:%d:%d" % (tag, (3 if np.ndim(refs.cust(tag, j0)) == 3 else 0) if ok and j0 is not None else 0, 1 if ok else 0))
    ce = ["%s:%d" % (tag, 1 if EF[tag][1] else 0) for tag in sc["ce_used"]]
    cl = []
    for call in (calls if calls is not None else sc["calls"]):
        cl.append(",".join(item_to_line(i) for i in call["vars"]) + "~" + ",".join(item_to_line(i) for i in call["ests"]))
    return "|".join(["rows=" + ",".join(str(j) for j in sc["order"]), "cols=" + ";".join(cols),
                     "bi=" + ",".join(bi), "ef=" + ",".join(sc["ef_used"]), "cf=" + ",".join(cf),
                     "ce=" + ",".join(ce), "calls=" + ";".join(cl)])


# ----------------------------------------------------------------- scenario generator
def gen_scenario(rng, tier, force=None):
    force = force or {}
    N = force.get("N", rng.choice((6, 6, 7) if tier == "quick" else (6, 7, 8)))
    n = force.get("n", rng.choice((1, 2, 3, 3, 4, 4, 5) if tier == "quick" else (1, 2, 3, 4, 5, 6, 7)))
    order = list(range(n))
    rng.shuffle(order)
    tsets = [["it"], ["iteration"], ["t"], ["time"], ["it", "t"], ["t", "it"], ["iteration", "time"],
             ["time", "it"], ["it", "iteration", "t", "time"], ["t", "iteration"]]
    tcols = force.get("tcols", rng.choice(tsets))
    tvals = {}
    for c in tcols:
        mode = rng.choice(("distinct", "distinct", "ties"))
        if mode == "distinct":
            vals = rng.sample(range(0, 10 * n + 5), n)
        else:
            vals = [rng.randrange(0, max(2, n // 2 + 1)) for _ in range(n)]
        tvals[c] = vals
    base = ["gammadown3", "Kdown3", "alpha"]
    extra = [c for c in ("rho", "betaup3", "mass") if rng.random() < 0.6]
    pre = [c for c in ("alpha_max", "rho_tg1") if rng.random() < 0.25 and (c.split("_")[0] in base + extra)]
    cols = base + extra + pre
    rng.shuffle(cols)
    # temporal columns at random positions
    for c in tcols:
        cols.insert(rng.randrange(0, len(cols) + 1), c)
    kwargs = {"myfac": rng.choice((2.5, 4.0))}
    if rng.random() < 0.4:
        kwargs["Lambda"] = rng.choice((0.1, 0.3))
    domain = force.get("domain", rng.random() < 0.6)
    bi_pool = [b for b in BUILTINS if not (b in ("betamag", "betadown3") and "betaup3" not in cols)]
    nv = rng.choice((0, 1, 1, 2, 2, 3, 4, 5))
    ne = rng.choice((0, 1, 1, 2, 3))
    vars_all, ests_all = [], []
    cnames = ["c1", "c2", "c3", "myvar"]
    enames = ["tg1", "tg2", "n"]
    used_names = set()
    for _ in range(nv):
        r = rng.random()
        if r < 0.5:
            b = rng.choice(bi_pool)
            if domain and b in used_names:
                continue
            used_names.add(b)
            vars_all.append(b)
        elif r < 0.85:
            items = []
            for _ in range(rng.choice((1, 1, 2))):
                nm = rng.choice(cnames)
                if (domain and nm in used_names) or nm in [i[0] for i in items]:
                    continue
                used_names.add(nm)
                tag = rng.choice(["fa", "fb", "fc", "fd", "fa", "fc", "fg", "fg", "fh"]
                                 + (["bad2", "badraise"] if rng.random() < 0.3 else []))
                items.append([nm, tag])
            if items:
                vars_all.append({"dict": items})
        elif r < 0.92:
            vars_all.append(rng.choice(("notavar", "alpha", "gammadown3")))   # unknown / already present
        else:
            vars_all.append("@")
    used_e = set()
    for _ in range(ne):
        r = rng.random()
        if r < 0.6:
            e = rng.choice(EST_BUILTIN)
            if domain and e in used_e:
                continue
            used_e.add(e)
            ests_all.append(e)
        elif r < 0.9:
            nm = rng.choice(enames)
            if domain and nm in used_e:
                continue
            used_e.add(nm)
            tag = rng.choice(["ta", "tb", "ta"] + (["badarr", "bad2p"] if rng.random() < 0.3 else []))
            ests_all.append({"dict": [[nm, tag]]})
        elif r < 0.96:
            ests_all.append("nope")
        else:
            ests_all.append("@")
    # custom est named 'n' on scalar 'rho' gives key 'rho_n' = a built-in name: keep out of the property domain
    if domain and "n" in used_e and ("rho_n" in used_names):
        domain = False
    seq = [("v", i) for i in vars_all] + [("e", i) for i in ests_all]
    ncalls = rng.choice((1, 2, 2, 3, 3, 4, 5))
    style = "free"
    if domain and rng.random() < 0.3:
        # every call passes the complete estimates list, the variables are cut consecutively
        # (the usage of tests/test_over_time.py); not covered by the split theorem, checked by the oracle
        style = "all_ests_each_call"
        cuts = sorted(rng.randrange(0, len(vars_all) + 1) for _ in range(ncalls - 1))
        calls = [{"vars": vars_all[a:b], "ests": list(ests_all)} for a, b in zip([0] + cuts, cuts + [len(vars_all)])]
    elif domain:
        style = "consecutive"
        cuts = sorted(rng.randrange(0, len(seq) + 1) for _ in range(ncalls - 1))
        segs = [seq[a:b] for a, b in zip([0] + cuts, cuts + [len(seq)])]
        calls = [{"vars": [i for k, i in s if k == "v"], "ests": [i for k, i in s if k == "e"]} for s in segs]
    else:
        calls = [{"vars": [], "ests": []} for _ in range(ncalls)]
        for k, i in seq:
            tgt = rng.sample(range(ncalls), rng.choice((1, 1, 2)) if ncalls > 1 else 1)
            for c in sorted(tgt):
                calls[c]["vars" if k == "v" else "ests"].append(i)
        if rng.random() < 0.3 and ests_all:        # every call passes all estimates (the usage of the tests)
            for c in calls:
                c["ests"] = list(ests_all)
    sc = {"N": N, "order": order, "cols": cols, "tvals": tvals, "kwargs": kwargs, "calls": calls,
          "vars_all": vars_all, "ests_all": ests_all, "domain": domain, "style": style}
    if force.get("shadow", rng.random() < 0.25):
        shadow_scenario(rng, sc)
    finish_scenario(sc)
    return sc


def shadow_scenario(rng, sc):
    """Custom functions named like built-in keys (`press` from an EOS, `rho0`, `eps`, `alpha`
    when it is not an input), a long list of built-ins that read them, a small
    `clear_cache_every_nbr_calc` passed through over_time's keyword options; the custom
    entry first / in the middle / last.  One call, or several calls with the customs in the first
    one: in the property domain (oracle = fresh AurelCore with the custom values as frozen inputs,
    clean-up disabled)."""
    names = rng.sample(["press", "press", "rho0", "eps", "alpha"], rng.choice((1, 1, 2)))
    names = list(dict.fromkeys(names))
    cols = [c for c in sc["cols"] if c not in ("alpha_max", "rho_tg1")]
    if "rho" not in cols:
        cols.append("rho")
    if "alpha" in names:
        cols = [c for c in cols if c != "alpha"]
    sc["cols"] = cols
    pool = [b for b in DEP_POOL + BUILTINS if b not in names
            and not (b in ("betamag", "betadown3") and "betaup3" not in cols)]
    vars_all = rng.sample(pool, rng.randint(5, 14))
    for nm in names:
        where = rng.choice(("first", "middle", "last"))
        pos = {"first": 0, "middle": len(vars_all) // 2, "last": len(vars_all)}[where]
        vars_all.insert(pos, {"dict": [[nm, SHADOW[nm]]]})
    if rng.random() < 0.4:
        vars_all.insert(rng.randrange(0, len(vars_all) + 1), {"dict": [["c1", rng.choice(("fa", "fc"))]]})
    ests_all = rng.sample(EST_BUILTIN, rng.choice((0, 0, 1, 2)))
    if rng.random() < 0.3:
        ests_all.append({"dict": [["tg1", "ta"]]})
    kwargs = dict(sc["kwargs"])
    if rng.random() < 0.85:
        kwargs["clear_cache_every_nbr_calc"] = rng.choice((1, 2, 3, 5))
    sc.update(cols=cols, vars_all=vars_all, ests_all=ests_all, kwargs=kwargs)
    if rng.random() < 0.75:
        sc.update(domain=True, style="shadow_one_call", calls=[{"vars": list(vars_all), "ests": list(ests_all)}])
    else:
        # several calls, each with the full estimates list: the customs named like built-ins all in the
        # FIRST call, so that every built-in is requested after the customs it may read (theorem T4b
        # split_full_estimates, hypothesis FeedbackDep).  `vars_all` = the requests in the order of the
        # calls: in the property domain (oracle + one-call comparison).  (A custom requested AFTER a
        # built-in that reads it is the witness of split_without_feedback_is_false.)
        n = rng.choice((2, 3, 4))
        calls = [{"vars": [], "ests": list(ests_all)} for _ in range(n)]
        for v in vars_all:
            shadow = isinstance(v, dict) and v["dict"][0][0] in SHADOW
            calls[0 if shadow else rng.randrange(n)]["vars"].append(v)
        if rng.random() < 0.5:      # customs before every built-in (the literal hypothesis of T4b); otherwise
            # first / middle / last within the first call (same result: a call evaluates its customs first)
            calls[0]["vars"].sort(key=lambda v: 0 if isinstance(v, dict) and v["dict"][0][0] in SHADOW else 1)
        sc.update(domain=True, style="shadow_first_call", calls=calls,
                  vars_all=[v for c in calls for v in c["vars"]])


def fixed_shadow_scenarios():
    """Always run: a custom `press` (first / middle / last in the request), ten built-ins that
    read it, `clear_cache_every_nbr_calc` = 2 passed through over_time."""
    deps = ["press_n", "Ktrace", "gammadet", "Stresstrace_n", "A2", "gdet", "enthalpy", "Hamiltonian",
            "dtKtrace", "Ttrace"]
    out = []
    for pos in (0, 5, 10):
        v = list(deps)
        v.insert(pos, {"dict": [["press", "fp"]]})
        sc = {"N": 6, "order": [2, 0, 1], "cols": ["it", "gammadown3", "Kdown3", "alpha", "rho", "betaup3"],
              "tvals": {"it": [20, 0, 10]}, "kwargs": {"clear_cache_every_nbr_calc": 2}, "domain": True,
              "style": "shadow_one_call", "vars_all": v, "ests_all": ["max"],
              "calls": [{"vars": list(v), "ests": ["max"]}]}
        finish_scenario(sc)
        out.append(sc)
    return out


def fixed_full_estimates_scenarios():
    """Always run (tie of T4b `split_full_estimates`): EVERY call passes the complete estimates
    list, 3 / 4 / 5 calls (one of them without variables), rows given in permuted order with
    DUPLICATE temporal keys (stability), two temporal columns, custom functions that read other
    custom variables (`fg` reads `c1`, `fh` reads `c2` and `myvar`), a built-in and a custom estimator.
    In the property domain: oracle = per-step fresh AurelCore + the one-call run of the real code."""
    out = []
    v1 = ["Ktrace", {"dict": [["c1", "fa"]]}, "gammadet", {"dict": [["c2", "fg"]]}, {"dict": [["c3", "fh"]]}, "A2"]
    v2 = [{"dict": [["myvar", "fc"], ["c1", "fg"]]}, "Ktrace", {"dict": [["c2", "fg"]]}, "s_RicciS",
          {"dict": [["c3", "fh"]]}, "gdet", "kxx"]
    specs = [
        (v1, [2, 4], ["max", {"dict": [["tg1", "ta"]]}], [3, 1, 4, 0, 2], {"it": [5, 5, 0, 5, 0]}, ["it"]),
        (v1, [0, 1, 3], ["mean", "x1y0z1"], [1, 3, 0, 2], {"t": [7, 3, 7, 3], "it": [0, 1, 2, 3]}, ["it", "t"]),
        (v2, [1, 3, 3, 6], ["min", {"dict": [["tg2", "tb"]]}, "maxabs"], [4, 2, 5, 0, 3, 1],
         {"iteration": [2, 1, 2, 1, 0, 2]}, ["iteration"]),
    ]
    for vars_all, cuts, ests, order, tvals, tcols in specs:
        cols = ["gammadown3", "Kdown3", "alpha", "rho"]
        for k, c in enumerate(tcols):
            cols.insert(2 * k, c)
        calls = [{"vars": vars_all[a:b], "ests": copy.deepcopy(ests)}
                 for a, b in zip([0] + cuts, cuts + [len(vars_all)])]
        sc = {"N": 6, "order": order, "cols": cols, "tvals": tvals, "kwargs": {"myfac": 2.5}, "domain": True,
              "style": "all_ests_each_call", "vars_all": copy.deepcopy(vars_all), "ests_all": copy.deepcopy(ests),
              "calls": calls}
        finish_scenario(sc)
        out.append(sc)
    return out


def reads_customs(sc):
    """Does some call of the scenario evaluate a custom function that READS another custom variable
    which the per-step AurelCore holds at that moment (defined earlier in the call or by an earlier call)?"""
    have = set()
    for call in sc["calls"]:
        for i in call["vars"]:
            if not isinstance(i, dict):
                continue
            for nm, tag in i["dict"]:
                if not VF[tag][1] or nm in sc["cols"] or nm in have:
                    continue
                if (tag == "fg" and "c1" in have) or (tag == "fh" and ({"c2", "myvar"} & have)):
                    return True
                have.add(nm)
    return False


def finish_scenario(sc):
    bi, cf, ef, ce = [], [], [], []
    for call in sc["calls"] + [{"vars": sc.get("vars_all", []), "ests": sc.get("ests_all", [])}]:
        for i in call["vars"]:
            if isinstance(i, dict):
                for _, tag in i["dict"]:
                    if tag not in cf:
                        cf.append(tag)
            elif i != "@" and i in BUILTINS + DEP_POOL + ["alpha", "gammadown3"] and i not in bi:
                bi.append(i)
        for i in call["ests"]:
            if isinstance(i, dict):
                for _, tag in i["dict"]:
                    if tag not in ce:
                        ce.append(tag)
            elif i != "@" and i in EST_BUILTIN and i not in ef:
                ef.append(i)
    # names in core.descriptions that are present in the table (cleaned away) still count as descriptions
    sc["bi_used"], sc["cf_used"], sc["ef_used"], sc["ce_used"] = bi, cf, ef, ce


# ----------------------------------------------------------------- independent oracle
def stable_order(sc):
    """Row tags stably sorted by the temporal key: written here (insertion sort with <)."""
    tk = None
    for c in TEMPORAL:
        if c in sc["cols"]:
            tk = c
    vals = sc["tvals"][tk]
    out = []
    for p, j in enumerate(sc["order"]):
        k = len(out)
        while k > 0 and vals[p] < out[k - 1][0]:
            k -= 1
        out.insert(k, (vals[p], j))
    return tk, [j for _, j in out]


def expected_table(sc, refs):
    """What the property says the final table is (as a dict col -> ids), or None when
    nothing new is requested.  One-call semantics: the valid new custom variables are
    evaluated in request order, each on the step's inputs plus the custom values before
    it; every built-in is computed from the step's inputs plus ALL custom values, which
    are frozen inputs of the step (whatever the cache settings)."""
    cols = sc["cols"]
    j0 = sc["order"][0]
    customs = []          # (name, tag) valid and new, in request order
    builtins = []
    order = []            # ("c", idx) / ("b", name) in request order
    for i in sc["vars_all"]:
        if isinstance(i, dict):
            for nm, tag in i["dict"]:
                if nm not in cols and VF[tag][1]:
                    customs.append((nm, tag))
                    order.append(("c", len(customs) - 1))
        elif i != "@" and i not in cols and i in BUILTINS + DEP_POOL:
            builtins.append(i)
            order.append(("b", i))

    def suffix(k, j):
        if k == 0:
            return ""
        return "|" + ";".join("%s=%s" % (customs[m][0], cust_id(m, j)) for m in range(k))

    def cust_id(m, j):
        return "cust(%s,row%d%s)" % (customs[m][1], j, suffix(m, j))

    def calc_id(name, j):
        return "calc(%s,row%d%s)" % (name, j, suffix(len(customs), j))

    newvars = []          # (name, idfun, is3)
    for kind, x in order:
        if kind == "c":
            f = (lambda m: (lambda j: cust_id(m, j)))(x)
            newvars.append((customs[x][0], f, np.ndim(refs.value(f(j0))) == 3))
        else:
            f = (lambda nm: (lambda j: calc_id(nm, j)))(x)
            newvars.append((x, f, np.ndim(refs.value(f(j0))) == 3))
    ests = []
    for i in sc["ests_all"]:
        if isinstance(i, dict):
            for nm, tag in i["dict"]:
                if EF[tag][1]:
                    ests.append((nm, "estc(%s,%%s)" % tag))
        elif i != "@" and i in EST_BUILTIN:
            ests.append((i, "est(%s,%%s)" % i))
    scal = [(c, (lambda cc: (lambda j: "in(%s,row%d)" % (cc, j)))(c)) for c in cols if np.ndim(refs.inp(c, j0)) == 3]
    scal += [(nm, f) for nm, f, three in newvars if three]
    estcols = []
    for en, efmt in ests:
        for k, kf in scal:
            key = k + "_" + en
            if key not in cols and key not in [e[0] for e in estcols] and key not in [v[0] for v in newvars]:
                estcols.append((key, efmt, kf))
    if not newvars and not estcols:
        return None
    _, tags = stable_order(sc)
    exp = {}
    for c in cols:
        exp[c] = ["in(%s,row%d)" % (c, j) for j in tags]
    for nm, f, _ in newvars:
        exp[nm] = [f(j) for j in tags]
    for key, efmt, kf in estcols:
        exp[key] = [efmt % kf(j) for j in tags]
    return exp


def row_of(cid):
    i = cid.rfind("row")
    if i < 0:
        return None
    d = ""
    for ch in cid[i + 3:]:
        if ch.isdigit():
            d += ch
        else:
            break
    return int(d) if d else None


def oracle_check(ctx, sc, refs, refd, real, modified, stats):
    """Violations of the property on the REAL code for an in-domain scenario."""
    found = 0
    rp = {"kind": "input", "scenario": sc}

    def viol(kind, what, **fp):
        f = {"kind": kind}
        f.update(fp)
        return 1 if ctx.violation(what, dict(rp, what_kind=kind), f) else 0

    if modified:
        found += viol("caller_dict_modified", "over_time modified the caller's input dict / arrays")
    if isinstance(real, str):
        found += viol("raised", "over_time raised %s on a well-formed request" % real)
        return found
    exp = expected_table(sc, refs)
    if exp is None:
        return found
    prefer = {(c, i): cid for c, ids in exp.items() for i, cid in enumerate(ids)}
    can = dict(canon_table(real, refd, prefer, stats, refs))
    tk, tags = stable_order(sc)
    n = len(tags)
    for c in sc["cols"]:
        if c not in can:
            found += viol("input_lost", "input column %r is missing from the result" % c)
        elif len(can[c]) != n:
            found += viol("input_lost", "input column %r has %d rows, expected %d" % (c, len(can[c]), n))
    if found:
        return found
    # custom variables must be frozen inputs of the step: a cell that equals the value computed
    # WITHOUT the custom values (built-in defaults instead) is reported as such
    for c, ids in exp.items():
        if c not in can:
            continue
        for i, want in enumerate(ids):
            if i >= len(can[c]) or can[c][i] == want:
                continue
            head, _, body = want.partition("(")
            name, rest = split_first(body[:-1], ",")
            rowpart, entries = split_first(rest, "|")
            plain = None
            if head == "calc" and entries:
                plain = "calc(%s,%s)" % (name, rowpart)
            elif head == "cust":
                plain = "calc(%s,%s)" % (c, rowpart)      # the custom's own column holds the built-in default
            pv = refs.value(plain) if plain else None
            if pv is not None and same(real[c][i], pv) and not same(refs.value(want), pv):
                frozen = [e.partition("=")[0] for e in split0(entries, ";")] if entries else [c]
                found += viol("custom_not_frozen",
                              "column %r row %d equals %s, i.e. it was computed from the built-in default of %s "
                              "instead of the custom value(s) set for this step (the custom variable is not a "
                              "frozen input of the per-step AurelCore; kwargs %s)"
                              % (c, i, plain, frozen, json.dumps(sc["kwargs"], sort_keys=True)))
                return found
    # order / permuted together: the row tag of every cell of output row i must be one tag
    out_tags = []
    for i in range(n):
        tg = set()
        for c, ids in can.items():
            if c in sc["tvals"] and len(set(sc["tvals"][c])) < n:
                continue            # ties in this temporal column: identity ambiguous
            if i < len(ids) and ids[i] != "UNKNOWN":
                r = row_of(ids[i])
                if r is not None:
                    tg.add(r)
        out_tags.append(tg)
    if any(len(tg) > 1 for tg in out_tags):
        # is the temporal column itself in order?
        tcol = [row_of(x) for x in can[tk]] if len(set(sc["tvals"][tk])) == n else None
        kind = "columns_not_permuted_together" if tcol == tags or tcol is None else "wrong_order"
        i = [k for k, tg in enumerate(out_tags) if len(tg) > 1][0]
        mixed = {c: ids[i] for c, ids in can.items() if i < len(ids)}
        # leakage = computed cell from another row while the inputs of that row are right
        in_tags = {row_of(v) for c, v in mixed.items() if c in sc["cols"] and c not in sc["tvals"] and v != "UNKNOWN"}
        if len(in_tags) == 1:
            kind = "leakage"
        found += viol(kind, "output row %d mixes cells of several input rows: %s" % (i, json.dumps(mixed)[:600]))
        return found
    got = [next(iter(tg)) if tg else None for tg in out_tags]
    if got != tags:
        found += viol("wrong_order", "rows come out in order %s, the stable sort by %r is %s" % (got, tk, tags))
        return found
    for c, ids in exp.items():
        if c not in can:
            kind = "estimate_missing" if ids and ids[0].startswith("est") else "variable_missing"
            found += viol(kind, "column %r is missing from the result" % c)
            break
        if can[c] != ids:
            i = [k for k in range(n) if k >= len(can[c]) or can[c][k] != ids[k]][0]
            got_id = can[c][i] if i < len(can[c]) else "<none>"
            kind = "wrong_value"
            if got_id != "UNKNOWN" and row_of(got_id) not in (None, row_of(ids[i])):
                kind = "leakage"
            elif ids[i].startswith("est"):
                kind = "estimate_wrong"
            elif ids[i].startswith("in("):
                kind = "input_not_preserved"
            found += viol(kind, "column %r row %d is %s, a fresh per-step calculation gives %s" % (c, i, got_id, ids[i]))
            break
    for c in can:
        if c not in exp:
            found += viol("extra_column", "unexpected column %r" % c)
            break
    return found


def split_check(ctx, sc, real):
    """Final table of the split == final table of the one call (real code both)."""
    if len(sc["calls"]) < 2 or isinstance(real, str):
        return 0
    one, _ = run_real(sc, [{"vars": sc["vars_all"], "ests": sc["ests_all"]}])
    if isinstance(one, str):
        return 0
    diff = None
    if set(one.keys()) != set(real.keys()):
        diff = "columns differ: only in one call %s, only in split %s" % (
            sorted(set(one) - set(real)), sorted(set(real) - set(one)))
    else:
        for k in one:
            a, b = np.asarray(one[k]), np.asarray(real[k])
            if a.shape != b.shape or not np.array_equal(a, b):
                if same(a, b):
                    continue
                diff = "column %r differs" % k
                break
    if diff:
        return 1 if ctx.violation("split into %d calls gives another final table than one call: %s" % (len(sc["calls"]), diff),
                                  {"kind": "input", "scenario": sc, "what_kind": "split_dependence"},
                                  {"kind": "split_dependence"}) else 0
    return 0


# ----------------------------------------------------------------- witnesses of the two *_is_false theorems
def witness_scenarios():
    base = {"N": 6, "order": [2, 0, 1], "cols": ["it", "gammadown3", "Kdown3", "alpha"],
            "tvals": {"it": [20, 0, 10]}, "kwargs": {}, "domain": False}
    w1 = dict(copy.deepcopy(base), calls=[{"vars": [], "ests": ["max"]}, {"vars": ["Ktrace"], "ests": []}],
              vars_all=["Ktrace"], ests_all=["max"])
    w2 = dict(copy.deepcopy(base), calls=[{"vars": [], "ests": []}], vars_all=[], ests_all=[])
    # split_without_feedback_is_false: the built-in `press_n` in the first call, a custom `press` (which the
    # single call would feed into `press_n`) in the second call
    w3 = dict(copy.deepcopy(base), cols=["it", "gammadown3", "Kdown3", "alpha", "rho"],
              calls=[{"vars": ["press_n"], "ests": []}, {"vars": [{"dict": [["press", "fp"]]}], "ests": []}],
              vars_all=["press_n", {"dict": [["press", "fp"]]}], ests_all=[], style="witness")
    for w in (w1, w2, w3):
        finish_scenario(w)
    return w1, w2, w3


def check_witnesses(ctx):
    """Replay the witnesses of `split_any_order_is_false` and
    `sorted_together_full_is_false` on the real code."""
    w1, w2, w3 = witness_scenarios()
    real1, _ = run_real(w1)
    one1, _ = run_real(w1, [{"vars": ["Ktrace"], "ests": ["max"]}])
    if not isinstance(real1, str) and not isinstance(one1, str):
        if "Ktrace_max" in one1 and "Ktrace_max" not in real1:
            ctx.violation("over_time(estimates=['max']) then over_time(vars=['Ktrace']) has no 'Ktrace_max'; "
                          "the single call over_time(vars=['Ktrace'], estimates=['max']) has it",
                          {"kind": "input", "scenario": w1, "what_kind": "split_est_before_vars"},
                          {"kind": "split_est_before_vars"})
    real2, _ = run_real(w2)
    if not isinstance(real2, str):
        its = [int(v) for v in real2["it"]]
        if its != sorted(its):
            ctx.violation("over_time with nothing new to compute returns the rows unsorted (it = %s)" % its,
                          {"kind": "input", "scenario": w2, "what_kind": "noop_returns_unsorted"},
                          {"kind": "noop_returns_unsorted"})
    # witness of split_without_feedback_is_false (theorem later_calls_keep_columns says what happens: the
    # column `press_n` of the first call is never recomputed)
    real3, _ = run_real(w3)
    one3, _ = run_real(w3, [{"vars": w3["vars_all"], "ests": []}])
    first3, _ = run_real(w3, w3["calls"][:1])
    ok3, d3 = False, "over_time raised: split %s, one call %s" % (real3 if isinstance(real3, str) else "ok",
                                                                 one3 if isinstance(one3, str) else "ok")
    if not any(isinstance(x, str) for x in (real3, one3, first3)):
        kept = np.array_equal(np.asarray(real3["press_n"]), np.asarray(first3["press_n"]))
        differs = not same(np.asarray(real3["press_n"]), np.asarray(one3["press_n"]))
        same_press = bool(same(np.asarray(real3["press"]), np.asarray(one3["press"])))
        ok3 = kept and differs and same_press
        d3 = ("split keeps the first call's press_n: %s; split press_n != one-call press_n: %s (max |.| %.3g against %.3g); "
              "press equal: %s" % (kept, differs, float(np.max(np.abs(real3["press_n"]))),
                                   float(np.max(np.abs(one3["press_n"]))), same_press))
        if differs:
            what = ("over_time(data, vars=['press_n']) followed by over_time(result, vars=[{'press': f}]) keeps the "
                    "'press_n' computed from the default press (zeros); the single call over_time(data, "
                    "vars=['press_n', {'press': f}]) computes 'press_n' from the custom press: a custom variable "
                    "named like a built-in key, requested in a later call than a built-in that reads it, does not "
                    "reach the column computed earlier (split dependence outside the feedback hypothesis)")
            fp = {"kind": "split_custom_after_reader"}
            if ctx.match_known(fp) is not None:
                ctx.violation(what, {"kind": "input", "scenario": w3, "what_kind": "split_custom_after_reader"}, fp)
            else:       # candidate finding, reported to the lead; not (yet) an entry of known_findings.json
                ctx.notes.append("CANDIDATE-FINDING (not in known_findings.json): " + what)
    ctx.obligation("witness of split_without_feedback_is_false replayed on the real code (press_n, then a custom press)",
                   ok3, d3, kind="correspondence")
    return [w1, w2, w3]


# ----------------------------------------------------------------- run
def correspondence(ctx, scs, label):
    refs_l, lines = [], []
    for sc in scs:
        r = Refs(sc)
        refs_l.append(r)
        lines.append(model_line(sc, r))
    try:
        outs = ctx.run_driver("Driver/C14.lean", lines)
    except Exception as ex:  # noqa
        ctx.obligation("correspondence:driver", False, repr(ex), kind="correspondence")
        return [], []
    bad, results = [], []
    stats = {}
    dist = {}
    for sc, r, line, out in zip(scs, refs_l, lines, outs):
        model = parse_model(out)
        real, modified = run_real(sc)
        refd = all_refs(sc, r)
        if isinstance(model, str) or isinstance(real, str):
            can = real if isinstance(real, str) else "ok"
            mod = model if isinstance(model, str) else "ok"
            ok = can == mod
            d = "impl %s, model %s" % (can, mod)
        else:
            prefer = {(c, i): cid for c, ids in model for i, cid in enumerate(ids)}
            can = canon_table(real, refd, prefer, stats, r)
            ok = can == model
            d = ""
            if not ok:
                if [c for c, _ in can] != [c for c, _ in model]:
                    d = "columns impl %s model %s" % ([c for c, _ in can], [c for c, _ in model])
                else:
                    for (c, a), (_, b) in zip(can, model):
                        if a != b:
                            d = "column %s: impl %s model %s" % (c, a, b)
                            break
        extra_keys = []
        if sc.get("style") == "all_ests_each_call" and len(sc["calls"]) >= 3:
            extra_keys.append("all_ests_each_call,calls>=3")
        if reads_customs(sc):
            extra_keys.append("custom_reads_custom")
        if any(len(set(v)) < len(v) for v in sc["tvals"].values()) and len(sc["calls"]) >= 2:
            extra_keys.append("ties,calls>=2")
        for key in extra_keys + ["rows=%d" % len(sc["order"]), "calls=%d" % len(sc["calls"]),
                    "temporal=" + "+".join(c for c in sc["cols"] if c in sc["tvals"]),
                    "split=" + sc.get("style", "fixed"),
                    "ties" if any(len(set(v)) < len(v) for v in sc["tvals"].values()) else "distinct",
                    "kwargs=" + "+".join(sorted(sc["kwargs"]))]:
            dist[key] = dist.get(key, 0) + 1
        ctx.count("cells_compared", 0 if isinstance(can, str) else sum(len(i) for _, i in can))
        if isinstance(real, str):
            ctx.count("exceptions_" + real)
        if not ok:
            bad.append((line, d))
        results.append((sc, r, refd, real, modified, ok))
    cd = ctx.cov.setdefault("correspondence_distribution", {})
    for k, v in dist.items():
        cd[k] = cd.get(k, 0) + v
    ctx.cov["inexact_matches(roundoff)"] = ctx.cov.get("inexact_matches(roundoff)", 0) + stats.get("inexact", 0)
    ctx.obligation("correspondence: Model/Table vs aurel.over_time, %s (%d scenarios)" % (label, len(scs)),
                   not bad, "; ".join("%s -> %s" % b for b in bad[:3]), kind="correspondence")
    if outs and scs:
        ctx.sample({"scenario_line": lines[0][:400], "model_output": outs[0][:400]})
    return results, bad


def error_scenarios():
    """Malformed tables: no temporal key, no rows, ragged columns."""
    out = []
    b = {"N": 6, "kwargs": {}, "domain": False, "vars_all": [], "ests_all": []}
    out.append(dict(b, order=[1, 0], cols=["gammadown3", "Kdown3", "alpha"], tvals={},
                    calls=[{"vars": ["Ktrace"], "ests": []}]))
    out.append(dict(b, order=[], cols=["it", "gammadown3", "alpha"], tvals={"it": []},
                    calls=[{"vars": ["Ktrace"], "ests": []}]))
    out.append(dict(b, order=[], cols=["it", "gammadown3", "alpha"], tvals={"it": []},
                    calls=[{"vars": [], "ests": ["max"]}]))
    out.append(dict(b, order=[], cols=["it", "alpha"], tvals={"it": []}, calls=[{"vars": [], "ests": []}]))
    for sc in out:
        finish_scenario(sc)
    return out


def ragged_case(ctx):
    """zip(strict=True) on ragged columns: ValueError in code and model."""
    import aurel
    fd = get_fd(6)
    data = {"it": [1, 0], "gammadown3": [input_cell(6, "gammadown3", 0)], "Kdown3": [input_cell(6, "Kdown3", 0)]}
    try:
        with quiet(), contextlib.redirect_stderr(io.StringIO()):
            aurel.over_time(data, fd, vars=["Ktrace"], verbose=False)
        real = "ok"
    except Exception as ex:  # noqa
        real = type(ex).__name__
    line = "rows=0|cols=it:0:1,0:1,0;gammadown3:0;Kdown3:0|bi=Ktrace:3|ef=|cf=|ce=|calls=Ktrace~"
    try:
        out = ctx.run_driver("Driver/C14.lean", [line])[0]
    except Exception as ex:  # noqa
        out = repr(ex)
    ctx.obligation("correspondence: ragged table", out == "err " + real, "impl %s, model %s" % (real, out), kind="correspondence")


def run(ctx):
    ctx.trusted += ["Lean 4.33 kernel; axioms propext, Classical.choice, Quot.sound",
                    "Model/Table.lean is hand-written; tied to time.py by the canonical-table correspondence (column order included)",
                    "numpy: np.array(list) copies values exactly; array_equal is exact",
                    "the harness's tagged inputs make every reference cell distinct, so identity by value is identity"]
    ctx.assumptions += ["calc/cust/est are abstract deterministic functions of one row's dictionary: what AurelCore computes inside a step is C01-C10's subject",
                        "split-invariance theorems: previously computed columns fed back as frozen inputs give the same values (hypothesis FeedbackOK / FeedbackDep = property C01; FeedbackDep lets an item read the custom variables requested before it), request names distinct, estimate column names k_e new and injective",
                        "sortable temporal cells: `<` is a strict weak order (no NaN)"]
    # 2-3. prove + audit
    ctx.prove(MODULE, THEOREMS)
    ctx.prove(MODULE_B, THEOREMS_B)
    ctx.forbidden_scan(LEAN_FILES)
    if ctx.tier == "thorough":
        ctx.leanchecker([MODULE, MODULE_B])
    # 4. correspondence
    n_sc = ctx.budget(300, 5000)
    scs = fixed_shadow_scenarios() + fixed_full_estimates_scenarios() \
        + [gen_scenario(ctx.rng, ctx.tier) for _ in range(n_sc)]
    results, bad = correspondence(ctx, scs, "random scenarios")
    correspondence(ctx, error_scenarios(), "malformed tables")
    ragged_case(ctx)
    ws = check_witnesses(ctx)
    correspondence(ctx, ws, "witnesses of the *_is_false theorems")
    # 5/6. oracle on the real code (sentinel on every in-domain scenario; more when broken)
    found = 0
    n_dom = 0
    for sc, r, refd, real, modified, ok in results:
        if modified:
            found += 1 if ctx.violation("over_time modified the caller's input dict / arrays",
                                        {"kind": "input", "scenario": sc, "what_kind": "caller_dict_modified"},
                                        {"kind": "caller_dict_modified"}) else 0
        if not sc["domain"]:
            continue
        n_dom += 1
        st = {}
        found += oracle_check(ctx, sc, r, refd, real, False, st)
        found += split_check(ctx, sc, real)
        if found >= 5:
            break
    ctx.cov["oracle_scenarios"] = n_dom
    found += estimator_table_check(ctx)
    with np.errstate(all="ignore"):
        found += stored_columns_check(ctx)
    if ctx.broken() and not found:
        extra = [gen_scenario(ctx.rng, ctx.tier, {"domain": True}) for _ in range(ctx.budget(150, 600))]
        for sc in extra:
            r = Refs(sc)
            real, modified = run_real(sc)
            found += oracle_check(ctx, sc, r, all_refs(sc, r), real, modified, {})
            found += split_check(ctx, sc, real)
            if found >= 5:
                break
        ctx.cov["oracle_scenarios_extra"] = len(extra)


# independent definitions of the documented estimators (never aurel.time.est_functions): name -> (function, defined
# for complex arrays?).  max/min/percentiles of complex numbers have no agreed meaning and are only checked on reals.
def _pct(q):
    def f(a):
        v = np.sort(np.ravel(a))
        x = (len(v) - 1) * q / 100.0
        lo = int(np.floor(x))
        hi = min(lo + 1, len(v) - 1)
        return v[lo] + (v[hi] - v[lo]) * (x - lo)
    return f


def _mod(a):
    a = np.asarray(a)
    return np.sqrt(a.real ** 2 + a.imag ** 2) if np.iscomplexobj(a) else np.where(a < 0, -a, a)


ORACLE_EST = {
    "max": (lambda a: np.sort(np.ravel(a))[-1], False), "min": (lambda a: np.sort(np.ravel(a))[0], False),
    "mean": (lambda a: np.sum(a) / a.size, True), "sum": (lambda a: np.sum(a), True),
    "var": (lambda a: np.sum(_mod(a - np.sum(a) / a.size) ** 2) / a.size, True),
    "std": (lambda a: np.sqrt(np.sum(_mod(a - np.sum(a) / a.size) ** 2) / a.size), True),
    "quartile1": (_pct(25), False), "median": (_pct(50), False), "quartile3": (_pct(75), False),
    "maxabs": (lambda a: np.sort(np.ravel(_mod(a)))[-1], True), "minabs": (lambda a: np.sort(np.ravel(_mod(a)))[0], True),
    "meanabs": (lambda a: np.sum(_mod(a)) / a.size, True), "sumabs": (lambda a: np.sum(_mod(a)), True),
    "varabs": (lambda a: np.sum((_mod(a) - np.sum(_mod(a)) / a.size) ** 2) / a.size, True),
    "stdabs": (lambda a: np.sqrt(np.sum((_mod(a) - np.sum(_mod(a)) / a.size) ** 2) / a.size), True),
    "quartile1abs": (lambda a: _pct(25)(_mod(a)), True), "medianabs": (lambda a: _pct(50)(_mod(a)), True),
    "quartile3abs": (lambda a: _pct(75)(_mod(a)), True),
    "x0y0z0": (lambda a: a[0, 0, 0], True), "x0y0z1": (lambda a: a[0, 0, -1], True), "x0y1z0": (lambda a: a[0, -1, 0], True),
    "x0y1z1": (lambda a: a[0, -1, -1], True), "x1y0z0": (lambda a: a[-1, 0, 0], True), "x1y0z1": (lambda a: a[-1, 0, -1], True),
    "x1y1z0": (lambda a: a[-1, -1, 0], True), "x1y1z1": (lambda a: a[-1, -1, -1], True),
}


def estimator_table_check(ctx):
    """every documented estimator, through over_time, on real AND complex 3-D columns (an input column and a custom
    variable), against the independent definitions above; the arrays handed in are compared afterwards"""
    import aurel
    found = 0
    names = list(aurel.time.est_functions.keys())
    missing = [n for n in names if n not in ORACLE_EST]
    if missing:
        ctx.notes.append("estimators without an independent definition (not judged): %s" % missing)
    nprng = np.random.default_rng(ctx.rng.randrange(10 ** 6))
    N = (5, 4, 6)
    p = {"Nx": N[0], "Ny": N[1], "Nz": N[2], "xmin": 0.0, "ymin": 0.0, "zmin": 0.0, "dx": 0.5, "dy": 0.5, "dz": 0.5}
    fd = aurel.FiniteDifference(p, verbose=False)
    nsteps = 3
    rho = [nprng.normal(size=N) for _ in range(nsteps)]
    phi = [nprng.normal(size=N) + 1j * nprng.normal(size=N) for _ in range(nsteps)]
    tcol = np.array([2.0, 0.0, 1.0])
    order = np.argsort(tcol, kind="stable")
    cz = (1.5 - 0.5j) * (1 + fd.x) + 0.25j * fd.y
    ests = [n for n in names if n in ORACLE_EST]
    data = {"rho": [a.copy() for a in rho], "phi": [a.copy() for a in phi]}
    # numpy's percentile refuses complex input, so real and complex columns go through separate calls
    runs = [({"t": tcol.copy(), "rho": data["rho"]}, [], ests, (("rho", rho),)),
            ({"t": tcol.copy(), "phi": data["phi"]},
             [{"cz": lambda rel: (1.5 - 0.5j) * np.asarray(rel["alpha"]) * (1 + fd.x) + 0.25j * fd.y}],
             [e for e in ests if ORACLE_EST[e][1]], (("phi", phi), ("cz", [cz] * nsteps)))]
    for table, vars_, es, cols in runs:
        try:
            with quiet():
                out = aurel.over_time(dict(table), fd, vars=vars_, estimates=es, verbose=False)
        except Exception as ex:  # noqa
            found += 1 if ctx.violation("over_time raised %r on columns %s with estimates %s" % (ex, [c for c, _ in cols], es),
                                        {"kind": "input", "check": "estimator_table"}, {"site": "estimates", "what": "raises"}) else 0
            continue
        for e in es:
            f, cplx = ORACLE_EST[e]
            for col, arrs in cols:
                key = "%s_%s" % (col, e)
                ctx.count("estimator_table_evaluations")
                if key not in out:
                    found += 1 if ctx.violation("over_time: no column %s" % key, {"kind": "input", "check": "estimator_table", "column": key},
                                                {"site": "estimates", "estimator": e, "what": "missing"}) else 0
                    continue
                for row, j in enumerate(order):
                    want = f(np.asarray(arrs[j]))
                    got = out[key][row]
                    if not np.allclose(got, want, rtol=1e-12, atol=1e-13):
                        found += 1 if ctx.violation(
                            "estimate column %s, row %d: %r, the estimator '%s' applied to the stored %s array gives %r"
                            % (key, row, complex(got), e, "complex" if np.iscomplexobj(arrs[j]) else "real", complex(want)),
                            {"kind": "input", "check": "estimator_table", "column": key, "row": row},
                            {"site": "estimates", "estimator": e, "dtype": "complex" if np.iscomplexobj(arrs[j]) else "real"}) else 0
                        break
    for col, arrs in (("rho", rho), ("phi", phi)):
        if any(not np.array_equal(a, b) for a, b in zip(data[col], arrs)):
            found += 1 if ctx.violation("over_time changed the caller's %s arrays" % col, {"kind": "input", "check": "estimator_table"},
                                        {"site": "estimates", "what": "input-modified"}) else 0
    return found


def stored_columns_check(ctx):
    """over_time stores results by reference: a later variable of the same step must not rewrite a column already
    stored (request orders over the big curvature keys, matter data), and the caller's table is left as it was;
    every stored column equals a fresh per-step calculation of that key alone"""
    import aurel
    found = 0
    N = (7, 6, 8)               # (the default 4th-order one-sided stencils need 6 points per axis)
    p = {"Nx": N[0], "Ny": N[1], "Nz": N[2], "xmin": -0.5, "ymin": -0.4, "zmin": -0.6, "dx": 0.2, "dy": 0.2, "dz": 0.2}
    fd = aurel.FiniteDifference(p, verbose=False)
    x, y, z = fd.x, fd.y, fd.z
    one = np.ones(N)

    def step(k):
        g = np.array([[1.5 + 0.1 * k + 0.2 * np.sin(x), 0.1 * np.cos(y), 0 * one], [0.1 * np.cos(y), 1.2 + 0.1 * np.sin(z), 0.05 * one],
                      [0 * one, 0.05 * one, 1.4 + 0.1 * np.cos(x + y)]])
        K = -0.3 * g * (1 + 0.1 * k)
        return {"gammadown3": g, "Kdown3": K, "alpha": 1.2 + 0.1 * np.sin(y), "rho0": 1.0 + 0.2 * np.cos(z) + 0.1 * k,
                "press": 0.3 + 0.05 * np.sin(x)}
    steps = [step(k) for k in range(2)]
    orders = [["st_Riemann_down4", "st_Weyl_down4"], ["st_Weyl_down4", "st_Riemann_down4"],
              ["Tdown4", "Stressdown3_n", "anisotropic_press_down3_n", "Tdown4"], ["s_Gamma_udd3", "s_Gamma_udd3_bssnok", "s_Gamma_udd3"]]
    for vars_ in orders:
        vs = list(dict.fromkeys(vars_))
        data = {"it": np.arange(2)}
        for k in steps[0]:
            data[k] = [np.array(st[k], copy=True) for st in steps]
        try:
            with quiet():
                out = aurel.over_time(dict(data), fd, vars=vs, estimates=[], verbose=False, Lambda=0.2)
        except Exception as ex:  # noqa
            found += 1 if ctx.violation("over_time(vars=%s) raised %r" % (vs, ex), {"kind": "input", "check": "stored_columns"},
                                        {"site": "stored-columns", "what": "raises"}) else 0
            continue
        for j in range(2):
            # the reference: a fresh instance on the step's inputs asked for the same keys in the same order, each value
            # COPIED at the moment it is returned (asking for a key alone could take another alternative: the Riemann-
            # based and the E/B-based Weyl tensors only agree on solutions, which these made-up fields are not — a
            # first version of this check compared with single requests and raised a false alarm of 51.6)
            rel = aurel.AurelCore(fd, verbose=False, Lambda=0.2)
            for k in steps[j]:
                rel.data[k] = np.array(steps[j][k], copy=True)
            rel.freeze_data()
            wants = {}
            with quiet():
                for v in vs:
                    wants[v] = np.array(rel[v], copy=True)
            for v in vs:
                want = wants[v]
                got = np.asarray(out[v][j])
                ctx.count("stored_columns_evaluations")
                scale = max(1.0, float(np.max(np.abs(want))))
                if got.shape != want.shape or not np.allclose(got, want, rtol=1e-9, atol=1e-9 * scale):
                    found += 1 if ctx.violation(
                        "over_time(vars=%s): the stored column %s of step %d differs by %.3g from the value a fresh instance "
                        "returned for it in the same request order (copied when returned)"
                        % (vs, v, j, float(np.max(np.abs(got - want))) if got.shape == want.shape else float("nan")),
                        {"kind": "input", "check": "stored_columns", "vars": vs, "column": v, "step": j},
                        {"site": "stored-columns", "column": v}) else 0
            for k in steps[j]:
                if not np.array_equal(data[k][j], steps[j][k]):
                    found += 1 if ctx.violation("over_time(vars=%s) changed the caller's column %s" % (vs, k),
                                                {"kind": "input", "check": "stored_columns"}, {"site": "stored-columns", "what": "input-modified"}) else 0
    return found


def replay(ctx, obj):
    if obj.get("check") == "stored_columns":
        n = stored_columns_check(ctx)
        print("replay: %d violation(s) now" % n)
        return 1 if n else 0
    if obj.get("check") == "estimator_table":
        n = estimator_table_check(ctx)
        print("replay: %d violation(s) now" % n)
        return 1 if n else 0
    sc = obj["scenario"]
    kind = obj.get("what_kind")
    if kind in ("split_est_before_vars", "noop_returns_unsorted", "split_custom_after_reader"):
        check_witnesses(ctx)
        n = len(ctx.violations) + len(ctx.known)
    else:
        r = Refs(sc)
        real, modified = run_real(sc)
        n = oracle_check(ctx, sc, r, all_refs(sc, r), real, modified, {}) + split_check(ctx, sc, real)
        n += len(ctx.known)
    print("replay: %d violation(s) now" % n)
    return 1 if n else 0


MANIFEST = {
    "category": "proof",
    "technique": "Lean 4 theorems over a hand-written executable model of over_time/process_single_timestep (association-list tables, abstract per-row comp/cust/est functions, stable insertion sort), tied to the real code by canonical-table correspondence with per-row distinct inputs and tagged custom functions",
    "text": "Proof for all tables (any number n >= 1 of rows, any row order, any columns) and all request lists: every stored cell of a requested variable is rel[v] of an AurelCore whose data is a function of that row's own dictionary (no other row occurs; stated as non-interference between tables that agree on one row and, in strong form, as ONE row function for all tables with the same column names and scalar keys: the complete output row of a step - input cells, variables, estimates - is a function of that step's input dictionary alone, whatever the other steps, their number and positions are, for every value of the AurelCore keyword options, clear_cache_every_nbr_calc included); every new estimate column k_e is the estimator applied row by row to column k, for input and computed scalars alike; when the call computes anything, the output is the column view of the input rows stably sorted by the last-present temporal key (Perm + Pairwise + stability), stated also with ONE explicit permutation sigma of the row indices applied to every input column and every computed column (all columns permuted together), every input column preserved cell by cell (out[k][j] = in[k][sigma[j]]; preserved in every case, also when nothing is computed); every consecutive split of vars ++ estimates into successive calls returns exactly the one-call table (column order included) under explicit hypotheses (distinct variable names that are not temporal names, estimators return scalars, array rank constant per column, strict weak order on the temporal cells, and the C01 hypothesis FeedbackOK: a column computed earlier and fed back as frozen input does not change later values); ANY sequence of calls that pass estimates in every call and whose last call passes all of them - in particular every call passing the FULL estimates list, the variable requests cut into any number of calls - returns the one-call table as a Python dict (same keys, same columns; the order of the estimate columns provably differs), under the dependency-aware feedback hypothesis FeedbackDep (an item may read the custom variables requested before it: a custom press followed by built-ins that read it, customs that read customs) plus consistent estimator names and estimate column names that are new and identify (key, estimator); a column computed by an earlier call is never recomputed by later calls (no feedback hypothesis); single row and all temporal-key combinations. The model is tied to aurel.over_time by comparing, cell by cell and in dict order, canonical identity tables (each real cell matched to the fresh-AurelCore reference it equals) on random scenarios: 1-7 rows, shuffled, ties, every temporal-key combination, built-in names, tagged custom variable functions and estimators (valid and invalid), custom functions that read other custom variables, pre-existing estimate columns, AurelCore keyword options, 1-5 calls (consecutive splits, every call with the full estimates list, free distributions), plus fixed 3/4/5-call scenarios with the full estimates list in every call, duplicate temporal keys and chained customs, plus malformed tables (exceptions).",
    "note": "Trusted: Lean kernel + propext/Classical.choice/Quot.sound; the hand-written model Model/Table.lean (validated by correspondence, 300 scenarios quick / 5000 thorough); what AurelCore computes inside one step is abstract (C01-C10). Statements of the property text that are false in full generality are proven false from witnesses replayed on the real code: estimates requested in an earlier call than a variable do not cover that variable (KNOWN-FINDING); a call with nothing new returns the table unsorted (KNOWN-FINDING); a custom variable requested in a LATER call than a built-in that reads it does not reach the column computed earlier (split_without_feedback_is_false, witness press_n then a custom press replayed as a correspondence obligation and recorded as CANDIDATE-FINDING in the evidence notes; it becomes a KNOWN-FINDING line once known_findings.json has an entry with match {kind: split_custom_after_reader}); with the full estimates list in every call the final table equals the one-call table as a dict but not in column order (full_estimates_exact_is_false; the correspondence compares the real column order with the model in both cases). Custom variables as frozen inputs of the step (independent of clear_cache_every_nbr_calc) are stated by per_step_frozen_customs and checked with customs named like built-in keys. The one-row-function form of non-interference assumes the same scalar-key list for both tables (the code decides it on the first row only; constant array rank per column makes it independent of the row). Not covered by a theorem (correspondence and oracle only): request lists that name the same variable twice; exact column order of non-consecutive splits beyond the model run; sequences in which an estimator is passed only by calls before the last call that adds a scalar variable (there columns are missing: split_any_order_is_false).",
}
