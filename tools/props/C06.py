"""C06 — on exact solutions the constraints vanish and the dt-keys are true t-derivatives.

Proof part: Lean theorems (Props/C06.lean) that each of the eight keys of core.py
(Hamiltonian, Momentumup3, dtKtrace, dtphi_bssnok, dtgammaup3, dtgammadown3_bssnok,
dtAdown3_bssnok, dts_Gamma_bssnok; matter and vacuum branches) equals the cited
ADM/BSSNOK equation of Spec/ADM.lean term by term, that rho_n / fluxup3_n / Stress*
are the Eulerian projections, and (Layer B) that the right-hand sides of dtgammaup3,
dtphi_bssnok, dtgammadown3_bssnok are the t-derivatives of gamma^-1, ln(det gamma)/12,
psi^-4 gamma_ij under the product rule and the kinematic relation.
Extensions (Props/C06b, C06c, C06d): Layer B derivations of dtAdown3_bssnok = d_t(psi^-4 (K_ij - gamma_ij K/3)) from the ADM
evolution equation of K_ij, and of dts_Gamma_bssnok = d_t(-d_j gamma~^ij) (commuting derivatives + the momentum constraint in
conformal form, itself derived from Momentumup3 = 0); Einstein's equations => Hamiltonian = 0 and Momentumup3 = 0 modulo the
(uncontracted) Gauss and Codazzi equations (hypotheses there).
Extension Props/C06e (+ Lemmas/C06Ricci{Second,Shift,Eq}, C06AdmCode, Spec/RicciEquation; non-vacuity Props/C06eEx): the ADM evolution
equation of K_ij is PROVEN from Einstein's equations on 2-jets (Ricci equation R_itjt = ... + alpha(d_t K_ij - L_beta K_ij) + alpha D_iD_j alpha
+ alpha^2 K_ik K^k_j as an off-shell identity for the textbook Riemann tensor of the assembled metric, then G + Lambda g = kappa T), the
Gauss-Codazzi hypotheses of C06c are discharged from Props/C04b, and the Layer-B theorems are restated with the ADM-evolution /
Hamiltonian / momentum hypotheses replaced by Einstein's equations for the assembled jet.

Search part (independent of model and code): sympy-generated exact solutions —
random smooth 3+1 fields (time-dependent lapse > 0, shift, non-diagonal metric) with
T := (G + Lambda g)/kappa, and Schwarzschild in moving Kerr-Schild coordinates
(vacuum=True) — fed to the REAL AurelCore at two resolutions; constraints -> 0 and
every dt-key -> exact d/dt of the exact field, error small and shrinking at ~2^p.
"""
import time

import numpy as np

from lib import corecheck, fw

MODULE = "AurelVerif.Props.C06"
THEOREMS = ["AurelVerif.C06." + t for t in (
    "Hamiltonian_spec", "Hamiltonian_matter_vs_vacuum", "Momentumup3_spec", "Momentumup3_matter_vs_vacuum",
    "Momentumup3_inlines", "Momentumup3_from_components",
    "dtgammaup3_spec", "dtgammaup3_inlines", "dtphi_bssnok_spec", "dtphi_bssnok_inlines",
    "dtgammadown3_bssnok_spec", "dtgammadown3_bssnok_inlines", "dtKtrace_vacuum_spec", "dtKtrace_matter_spec",
    "dtKtrace_inlines", "dtAdown3_bssnok_spec", "dtAdown3_bssnok_matter_vs_vacuum", "dtAdown3_bssnok_inlines",
    "dts_Gamma_bssnok_spec", "dts_Gamma_bssnok_matter_vs_vacuum",
    "rho_n_spec", "fluxup3_n_spec", "fluxup3_n_closed", "Stress_spec", "Stressdown3_n_is_T",
    "dtgammaup3_is_dt_inverse", "dtphi_bssnok_is_dt_logdet", "dtgammadown3_bssnok_is_dt_conformal",
    "dtgammaup3_is_dt", "dtphi_bssnok_is_dt", "dtgammadown3_bssnok_is_dt", "A2_bssnok_closed", "dtKtrace_is_dt_trace")] + [
    "AurelVerif.C06Deriv." + t for t in ("sandwich3", "inv_deriv", "dt_inverse_metric", "Deriv.det3", "deriv_of_inverse",
                                         "dt_logdet", "dt_conformal_metric", "A2_closed", "dt_trace_K")]
# extension modules (Layer B for dtAdown3_bssnok / dts_Gamma_bssnok; constraints from Einstein's equations modulo Gauss-Codazzi)
EXTRA = [
    ("AurelVerif.Props.C06b",
     ["AurelVerif.C06." + t for t in (
         "dtATildeVac_eq", "dtAdown3_bssnok_is_dt_conformal", "dtAdown3_bssnok_vacuum_is_dt_conformal",
         "dtAdown3_bssnok_via_dtKtrace", "deriv_trace", "deriv_Atilde", "dtAdown3_bssnok_is_dt",
         "dtAdown3_bssnok_vacuum_is_dt")]
     + ["AurelVerif.C06Deriv." + t for t in (
         "Deriv.third", "contract_GU", "contract_UG", "trace_UG", "AUA_closed", "trace_KUK", "lie_weighted_conformal",
         "dt_minus_lie_trace", "dtA_assemble", "dt_Atilde")]),
    ("AurelVerif.Props.C06c",
     ["AurelVerif.C06." + t for t in (
         "nup4_succ", "gammaup4_succ", "normalOK_of_code", "rhoN_einstein_eq", "fluxN_einstein_eq", "fluxN_spatial",
         "s_RicciS_is_double_contraction", "Hamiltonian_eq_Gnn", "Hamiltonian_zero_of_einstein", "Hamiltonian_vacuum_zero_of_einstein",
         "Momentumup3_eq_Gni", "Momentumup3_zero_of_einstein", "Momentumup3_vacuum_zero_of_einstein",
         "momentum_div_lowered", "constraints_zero_of_einstein", "exGC_normalOK", "exGC_gaussCodazzi", "exGC_ricci",
         "exGC_ricciS", "exGC_einstein")]
     + ["AurelVerif.C06Gauss." + t for t in (
         "sum4_swap", "antisym_contract_zero", "restrict2", "double_contract", "einstein_nn", "contracted_gauss",
         "gauss_scalar", "contracted_codazzi", "codazzi_normal_of_coord", "mom_div_lowered")]),
    ("AurelVerif.Props.C06d",
     ["AurelVerif.C06." + t for t in (
         "s_Gamma_bssnok_def", "Aup3_closed", "dtgammaup3_bssnok_is_dt", "D_of_dtgammaup3_bssnok",
         "dt_s_Gamma_bssnok_2823", "dts_Gamma_bssnok_is_dt", "dts_Gamma_bssnok_vacuum_is_dt", "s_Gamma_udd3_bssnok_rel",
         "Aup3_traceless", "s_Gamma_udd3_bssnok_trace_zero", "momentum_conformal", "momc_of_Momentum_zero")]
     + ["AurelVerif.C06Deriv." + t for t in (
         "Deriv.const_mul", "Deriv.two_thirds", "dt_conformal_inverse_metric", "dt_GammaVec_jets", "Gamma_contract_A",
         "Gamma_trace", "mom_conformal", "christoffel_trace", "half_trace_logdet", "Gammat_trace_zero")]),
    # extension round 2: the ADM evolution equation and the constraints FROM Einstein's equations (Ricci equation on 2-jets + C04b)
    ("AurelVerif.Props.C06e",
     ["AurelVerif.C06." + t for t in (
         "dtKd_is_leibniz", "dtK_is_derivative", "ricci_equation_offshell", "adm_evolution_iff", "adm_evolution_of_ricci",
         "dtKdown_of_einstein", "dtKdown_of_einstein_vacuum", "gaussCodazzi_textbook",
         "Hamiltonian_zero_of_einstein_textbook", "Hamiltonian_zero_of_einstein_textbook_vacuum",
         "Momentumup3_zero_of_einstein_textbook", "Momentumup3_zero_of_einstein_textbook_vacuum",
         "dtKtrace_is_dt_trace_of_einstein", "dtAdown3_bssnok_is_dt_conformal_of_einstein",
         "dtAdown3_bssnok_vacuum_is_dt_conformal_of_einstein", "momc_of_einstein", "dts_Gamma_bssnok_is_dt_of_einstein",
         "dts_Gamma_bssnok_vacuum_is_dt_of_einstein", "isDtK_of_deriv", "dtKdown3_is_dt_of_einstein",
         "dtKtrace_is_dt_of_einstein", "dtAdown3_bssnok_is_dt_of_einstein")]
     + ["AurelVerif.Spec.Curvature.JetC." + t for t in (
         "dtgam_symm", "ricci_second2", "ricci_second", "shift_part2", "shift_part", "quad_s0_s0", "quad_00_ss", "bbA_swap",
         "ricciEqRHS_expand", "ricci_gup3p1", "ricci_identity", "dttgamOf_dtKd", "dtK_unique", "adm_iff", "adm_of_ricci")]
     + ["AurelVerif.Spec.Curvature.Jet." + t for t in (
         "quad_split", "c1_s00", "c1_000", "c1_ss0_Db", "KK_form")]
     + ["AurelVerif.C06L." + t for t in (
         "lieK_code", "DDa_code", "trace_gup4", "gdown4_spatial", "ricci4_spatial_of_einstein", "ricci4_zero_of_vacuum",
         "dtKdown_geometric", "dtKdown_of_einstein", "dtKdown_of_einstein_vacuum", "riem4_code_sym", "gaussCodazzi_textbook",
         "AdmCached.normalOK", "symU_of", "symK_of", "hUG_of", "hGU_of", "MatterCached.rho", "MatterCached.strace",
         "MatterCached.sdown", "einsteinEq_of_onShell", "einstein4_zero_of_onShellVac",
         "ricciS_cached", "isDtK_of_deriv", "symT_timeJet2Of")]),
    ("AurelVerif.Props.C06eEx",
     ["AurelVerif.C06." + t for t in (
         "exF_hyp", "exF_onshell", "exF_adm", "exF_matter", "exF_ric3", "exF_isDtK", "exFdtK_22", "exKas_gup4",
         "exKas_ricci_full", "exKF_hyp", "exKF_onshell", "exKF_adm", "exKF_isDtK", "exKFdtK_00", "exDt_deriv", "exM_deriv",
         "exM_static", "exM_hyp", "exM_ricci", "exM_onshell", "exM_onshellVac", "exM_adm", "exM_matter")]
     + ["AurelVerif.Spec.Curvature." + t for t in (
         "tsplit_const", "dmetric3p1_zero", "ddmetric3p1_zero", "riemannDown_zero", "JetC.Static.dtgam", "JetC.Static.ddtgam",
         "JetC.Static.d4", "JetC.Static.dd4gam", "JetC.Static.dg4", "JetC.Static.ddg4", "JetC.Static.riem4",
         "JetC.Static.ricci")]),
    # extension round 3: hypothesis hRic (R~_ij + R^phi_ij is the Ricci tensor of gamma) discharged by Props/C05d
    ("AurelVerif.Props.C06f",
     ["AurelVerif.C06." + t for t in (
         "bssnokRicciHyp_of_deriv", "ricSum_is_ricci", "dtAdown3_bssnok_is_dt_conformal_of_einstein_noRic",
         "dtAdown3_bssnok_vacuum_is_dt_conformal_of_einstein_noRic", "dtAdown3_bssnok_is_dt_of_einstein_noRic")]
     + ["AurelVerif.C05." + t for t in ("ricci_bssnok_split", "s_Ricci_down3_bssnok_is_ricci", "ricciConformal_is_ricci")]),
    ("AurelVerif.Props.C06fEx",
     ["AurelVerif.C06." + t for t in ("exB_bssnokRicciHyp", "exB_ricSum")]),
]
NEEDED = ["Hamiltonian", "Momentumup3", "Momentumx", "Momentumy", "Momentumz", "dtKtrace", "dtphi_bssnok", "dtgammaup3",
          "dtgammadown3_bssnok", "dtAdown3_bssnok", "dts_Gamma_bssnok", "rho_n", "fluxup3_n", "Stressup3_n",
          "Stressdown3_n", "Stresstrace_n", "Lie_beta_scalar", "Lie_beta_s_uu", "Lie_beta_w_s_dd", "s_covd_uu", "trace3",
          "tracefree3", "gammaup3", "gammadet", "Ktrace", "Kup3", "Adown3", "gammaup4", "nup4",
          "Aup3", "s_Gamma_bssnok", "s_Gamma_udd3_bssnok", "s_Gamma_udd3", "s_RicciS", "s_Ricci_down3", "s_Riemann_down3", "gup4", "gdown4", "ndown4", "betadown3", "betamag", "gtt", "DDalpha"]
LEAN_FILES = ["AurelVerif/Props/C06.lean", "AurelVerif/Lemmas/C06Deriv.lean", "AurelVerif/Spec/ADM.lean",
              "AurelVerif/Spec/Covd.lean", "AurelVerif/Props/C09.lean", "AurelVerif/Props/C08.lean",
              "AurelVerif/Gen/CoreKeys.lean", "AurelVerif/Gen/CoreCurv.lean", "AurelVerif/Gen/CoreHelpers.lean",
              "AurelVerif/Props/C06b.lean", "AurelVerif/Props/C06c.lean", "AurelVerif/Props/C06d.lean",
              "AurelVerif/Lemmas/C06DtA.lean", "AurelVerif/Lemmas/C06Gauss.lean", "AurelVerif/Lemmas/C06Mom.lean",
              "AurelVerif/Lemmas/C06DtGamma.lean", "AurelVerif/Spec/GaussCodazzi.lean", "AurelVerif/Spec/Curvature.lean",
              "AurelVerif/Lemmas/C04Gup.lean", "AurelVerif/Lemmas/C04Blocks.lean", "AurelVerif/Lemmas/C05Covd.lean",
              "AurelVerif/Props/C06e.lean", "AurelVerif/Props/C06eEx.lean", "AurelVerif/Spec/RicciEquation.lean",
              "AurelVerif/Lemmas/C06RicciSecond.lean", "AurelVerif/Lemmas/C06RicciShift.lean", "AurelVerif/Lemmas/C06RicciEq.lean",
              "AurelVerif/Lemmas/C06AdmCode.lean", "AurelVerif/Lemmas/C06Static.lean", "AurelVerif/Spec/Riemann4Jet.lean",
              "AurelVerif/Props/C04b.lean", "AurelVerif/Lemmas/C04Jet2.lean", "AurelVerif/Lemmas/C04Gauss.lean",
              "AurelVerif/Lemmas/C04Codazzi.lean", "AurelVerif/Lemmas/C04Mainardi.lean", "AurelVerif/Lemmas/C04RiemSym.lean",
              "AurelVerif/Lemmas/C04CurvCode.lean", "AurelVerif/Lemmas/C04Jet2Deriv.lean",
              "AurelVerif/Props/C06f.lean", "AurelVerif/Props/C06fEx.lean", "AurelVerif/Props/C05d.lean", "AurelVerif/Props/C05dEx.lean",
              "AurelVerif/Lemmas/C05Bssn.lean", "AurelVerif/Lemmas/C05BssnAlg.lean"]

KAPPA = 8 * np.pi
PRIMS = ["al", "b0", "b1", "b2", "g00", "g01", "g02", "g11", "g12", "g22"]
MULTI = [()] + [(i,) for i in range(4)] + [(i, j) for i in range(4) for j in range(i, 4)]    # jets of order <= 2
# key -> name of the exact t-derivative (None: constraint, exact value 0)
KEYS = [("Hamiltonian", None), ("Momentumup3", None), ("dtKtrace", "dt_Ktr"), ("dtphi_bssnok", "dt_phi"),
        ("dtgammaup3", "dt_gu"), ("dtgammadown3_bssnok", "dt_gt"), ("dtAdown3_bssnok", "dt_At"),
        ("dts_Gamma_bssnok", "dt_Gam")]
# quantities requested BEFORE the constraints / dt-keys in a random history (none of them may change a later result)
WARMUP = ["s_Riemann_uddd3", "s_Riemann_down3", "s_Gamma_udd3", "s_Ricci_down3", "s_RicciS", "Kup3", "Ktrace",
          "gammaup3", "gammadet", "Adown3", "Aup3", "A2", "st_Gamma_udd4", "rho_n", "fluxup3_n", "fluxdown3_n", "Stressdown3_n",
          "Stressup3_n", "Stresstrace_n", "gdown4", "gup4", "gammadown3_bssnok", "gammaup3_bssnok", "Adown3_bssnok", "Aup3_bssnok",
          "psi_bssnok", "phi_bssnok", "s_Gamma_udd3_bssnok", "s_Gamma_bssnok", "s_Ricci_down3_bssnok", "s_Ricci_down3_phi",
          "st_Riemann_down4", "st_Ricci_down4", "st_RicciS", "Kretschmann", "Tup4", "Ttrace", "betadown3", "nup4", "ndown4"]


# ----------------------------------------------------------------------------- exact solutions (sympy)
def _sym():
    import sympy as sp
    return sp, sp.symbols("t x y z", real=True)


def wave(rng, amp, base=0.0):
    sp, (T, X, Y, Z) = _sym()
    k = rng.uniform(-1.5, 1.5, size=3)
    w = rng.uniform(0.5, 1.5) * rng.choice([-1, 1])
    p = rng.uniform(0, 2 * np.pi)
    a = rng.uniform(0.5, 1.0) * amp
    return base + sp.Float(a) * sp.sin(sp.Float(k[0]) * X + sp.Float(k[1]) * Y + sp.Float(k[2]) * Z + sp.Float(w) * T + sp.Float(p))


def random_gauge_solution(rng, shift=True):
    """random smooth 3+1 fields, all depending on (t,x,y,z): lapse > 0, non-zero shift, non-diagonal positive
    definite metric; an exact solution for T := (G + Lambda g)/kappa"""
    diag = [1.5, 1.8, 1.4]
    off = {(0, 1): 0.3, (0, 2): -0.25, (1, 2): 0.2}
    g = [[None] * 3 for _ in range(3)]
    for i in range(3):
        g[i][i] = wave(rng, 0.25, diag[i])
    for (i, j), b in off.items():
        g[i][j] = g[j][i] = wave(rng, 0.15, b)
    alpha = wave(rng, 0.25, 1.2)
    if shift:
        beta = [wave(rng, 0.15, b) for b in (0.2, -0.15, 0.1)]
    else:
        sp, _ = _sym()
        beta = [sp.Integer(0)] * 3
    return alpha, beta, g


def kerr_schild_moving(rng):
    """Schwarzschild in Kerr-Schild coordinates seen from coordinates x' = x - xi(t): exact VACUUM solution with
    time-dependent lapse, non-zero time-dependent shift (beta + dxi/dt) and non-diagonal metric"""
    sp, (T, X, Y, Z) = _sym()
    M = sp.Float(rng.uniform(0.3, 0.6))
    c = rng.uniform(2.0, 3.0, size=3) * rng.choice([-1, 1], size=3)
    xi = [sp.Float(rng.uniform(0.2, 0.5)) * sp.sin(sp.Float(rng.uniform(0.5, 1.5)) * T + sp.Float(rng.uniform(0, 6)))
          for _ in range(3)]
    xs = [X + xi[0] - sp.Float(c[0]), Y + xi[1] - sp.Float(c[1]), Z + xi[2] - sp.Float(c[2])]
    r = sp.sqrt(xs[0] ** 2 + xs[1] ** 2 + xs[2] ** 2)
    H = M / r
    l = [q / r for q in xs]
    g = [[(1 if i == j else 0) + 2 * H * l[i] * l[j] for j in range(3)] for i in range(3)]
    alpha = 1 / sp.sqrt(1 + 2 * H)
    beta = [2 * H * l[i] / (1 + 2 * H) + sp.diff(xi[i], T) for i in range(3)]
    return alpha, beta, g


class Abstract:
    """Stage A (independent of the solution, built once per process): every exact quantity as a formula in the jets
    (partial derivatives up to order 2) of ABSTRACT functions alpha, beta^i, gamma_ij of (t,x,y,z), obtained by sympy
    differentiation of the definitions K_ij = -(d_t gamma_ij - L_beta gamma_ij)/(2 alpha), K = gamma^ij K_ij,
    phi = ln(det gamma)/12, gamma~_ij = det^(-1/3) gamma_ij, A~_ij = det^(-1/3)(K_ij - gamma_ij K/3),
    Gamma~^i = -d_j gamma~^ij, and of the 4-metric g_mu_nu(alpha, beta, gamma)."""
    _inst = None

    @classmethod
    def get(cls):
        if cls._inst is None:
            cls._inst = cls()
        return cls._inst

    def __init__(self):
        sp, CO = _sym()
        T = CO[0]
        t0 = time.time()
        d = sp.diff
        F = {p: sp.Function(p)(*CO) for p in PRIMS}
        alpha = F["al"]
        beta = [F["b0"], F["b1"], F["b2"]]
        G = sp.Matrix(3, 3, lambda i, j: F["g%d%d" % (min(i, j), max(i, j))])
        det = (G[0, 0] * (G[1, 1] * G[2, 2] - G[1, 2] * G[2, 1]) - G[0, 1] * (G[1, 0] * G[2, 2] - G[1, 2] * G[2, 0])
               + G[0, 2] * (G[1, 0] * G[2, 1] - G[1, 1] * G[2, 0]))
        adj = sp.Matrix(3, 3, lambda i, j: G.cofactor(j, i))
        gu = adj / det
        K = sp.zeros(3, 3)
        for i in range(3):
            for j in range(i, 3):
                lie = sum(beta[k] * d(G[i, j], CO[1 + k]) + G[i, k] * d(beta[k], CO[1 + j]) + G[k, j] * d(beta[k], CO[1 + i])
                          for k in range(3))
                K[i, j] = K[j, i] = -(d(G[i, j], T) - lie) / (2 * alpha)
        Ktr = sum(gu[i, j] * K[i, j] for i in range(3) for j in range(3))
        phi = sp.log(det) / 12
        gt = det ** sp.Rational(-1, 3) * G
        gtu = det ** sp.Rational(1, 3) * gu
        At = det ** sp.Rational(-1, 3) * (K - G * Ktr / 3)
        Gam = [-sum(d(gtu[i, j], CO[1 + j]) for j in range(3)) for i in range(3)]
        out = {}
        m9 = lambda M: [M[i, j] for i in range(3) for j in range(3)]
        out["K"] = m9(K)
        out["Ktr"] = [Ktr]
        out["dt_Ktr"] = [d(Ktr, T)]
        out["dt_phi"] = [d(phi, T)]
        out["gu"] = m9(gu)
        out["dt_gu"] = [d(e, T) for e in m9(gu)]
        out["dt_gt"] = [d(e, T) for e in m9(gt)]
        out["At"] = m9(At)
        out["dt_At"] = [d(e, T) for e in m9(At)]
        out["dt_Gam"] = [d(q, T) for q in Gam]
        bd = [sum(G[i, j] * beta[j] for j in range(3)) for i in range(3)]
        g4 = sp.zeros(4, 4)
        g4[0, 0] = -alpha ** 2 + sum(beta[i] * bd[i] for i in range(3))
        for i in range(3):
            g4[0, i + 1] = g4[i + 1, 0] = bd[i]
            for j in range(3):
                g4[i + 1, j + 1] = G[i, j]
        out["g4"] = [g4[a, b] for a in range(4) for b in range(4)]
        dg = {(l, a, b): d(g4[a, b], CO[l]) for a in range(4) for b in range(a, 4) for l in range(4)}
        out["dg4"] = [dg[(l, min(a, b), max(a, b))] for l in range(4) for a in range(4) for b in range(4)]
        ddg = {(l, m, a, b): d(dg[(l, a, b)], CO[m]) for a in range(4) for b in range(a, 4) for l in range(4) for m in range(l, 4)}
        out["ddg4"] = [ddg[(min(l, m), max(l, m), min(a, b), max(a, b))]
                       for l in range(4) for m in range(4) for a in range(4) for b in range(4)]
        syms = {(p, mi): sp.Symbol("%s_%s" % (p, "".join("txyz"[i] for i in mi))) for p in PRIMS for mi in MULTI}
        rep = {}
        for p in PRIMS:
            for mi in MULTI:
                e = F[p]
                for i in mi:
                    e = sp.Derivative(e, CO[i])
                rep[e] = syms[(p, mi)]
        self.names = list(out)
        self.sizes = [len(out[k]) for k in self.names]
        flat = []
        for k in self.names:
            for e in out[k]:
                e2 = e.xreplace(rep)
                if e2.atoms(sp.Derivative) or any(isinstance(a, sp.core.function.AppliedUndef) for a in e2.atoms(sp.Function)):
                    raise RuntimeError("oracle: jet of order > 2 needed in %s" % k)
                flat.append(e2)
        args = [syms[(p, mi)] for p in PRIMS for mi in MULTI]
        self.f = sp.lambdify(args, flat, modules="numpy", cse=True)
        self.seconds = time.time() - t0


class Exact:
    """Stage B: closed-form solution -> jets of the 10 primitive fields (sympy derivatives, lambdified once) -> stage A."""

    def __init__(self, alpha, beta, g):
        sp, CO = _sym()
        t0 = time.time()
        prim = {"al": alpha, "b0": beta[0], "b1": beta[1], "b2": beta[2], "g00": g[0][0], "g01": g[0][1],
                "g02": g[0][2], "g11": g[1][1], "g12": g[1][2], "g22": g[2][2]}
        flat = []
        for p in PRIMS:
            cache = {(): sp.sympify(prim[p])}
            for mi in MULTI:
                if mi:
                    cache[mi] = sp.diff(cache[mi[:-1]], CO[mi[-1]])
                flat.append(cache[mi])
        self.jf = sp.lambdify(CO, flat, modules="numpy", cse=True)
        self.A = Abstract.get()
        self.seconds = time.time() - t0

    def eval(self, t, x, y, z):
        sh = x.shape
        jets = [np.broadcast_to(np.asarray(v, dtype=float), sh) for v in self.jf(t, x, y, z)]
        J = {(p, mi): jets[ip * len(MULTI) + im] for ip, p in enumerate(PRIMS) for im, mi in enumerate(MULTI)}
        vals = self.A.f(*jets)
        res, p = {}, 0
        for k, n in zip(self.A.names, self.A.sizes):
            res[k] = np.array([np.broadcast_to(np.asarray(v, dtype=float), sh) for v in vals[p:p + n]])
            p += n
        for k in ("K", "gu", "dt_gu", "dt_gt", "At", "dt_At"):
            res[k] = res[k].reshape((3, 3) + sh)
        for k in ("Ktr", "dt_Ktr", "dt_phi"):
            res[k] = res[k][0]
        res["g4"] = res["g4"].reshape((4, 4) + sh)
        res["dg4"] = res["dg4"].reshape((4, 4, 4) + sh)
        res["ddg4"] = res["ddg4"].reshape((4, 4, 4, 4) + sh)
        res["alpha"] = J[("al", ())]
        res["dtalpha"] = J[("al", (0,))]
        res["beta"] = np.array([J[("b%d" % i, ())] for i in range(3)])
        res["dtbeta"] = np.array([J[("b%d" % i, (0,))] for i in range(3)])
        res["gamma"] = np.array([[J[("g%d%d" % (min(i, j), max(i, j)), ())] for j in range(3)] for i in range(3)])
        return res


def einstein(g, dg, ddg):
    """G_mu_nu from the metric and its first and second partial derivatives (textbook formulas, numpy.linalg):
    Gamma_{a|bc} = (d_b g_ac + d_c g_ab - d_a g_bc)/2,
    R_abcd = (g_ad,bc + g_bc,ad - g_ac,bd - g_bd,ac)/2 + g_ef (Gamma^e_bc Gamma^f_ad - Gamma^e_bd Gamma^f_ac)."""
    gu = np.moveaxis(np.linalg.inv(np.moveaxis(g, (0, 1), (-2, -1))), (-2, -1), (0, 1))
    G1 = 0.5 * (np.einsum("bac...->abc...", dg) + np.einsum("cab...->abc...", dg) - dg)
    G2 = np.einsum("ad...,dbc...->abc...", gu, G1)
    R = 0.5 * (np.einsum("bcad...->abcd...", ddg) + np.einsum("adbc...->abcd...", ddg)
               - np.einsum("bdac...->abcd...", ddg) - np.einsum("acbd...->abcd...", ddg))
    R = R + np.einsum("ebc...,ead...->abcd...", G2, G1) - np.einsum("ebd...,eac...->abcd...", G2, G1)
    Ric = np.einsum("ac...,abcd...->bd...", gu, R)
    Rs = np.einsum("bd...,bd...->...", gu, Ric)
    return Ric - 0.5 * g * Rs


# ----------------------------------------------------------------------------- running the real code
def make_fd(N, order, geom):
    import aurel
    L, x0, asp = geom
    param = {"Nx": N, "Ny": N, "Nz": N, "xmin": x0[0], "ymin": x0[1], "zmin": x0[2],
             "dx": L / N, "dy": asp[0] * L / N, "dz": asp[1] * L / N}
    return aurel.FiniteDifference(param, fd_order=order, verbose=False)


PRE_READ = [False]          # toggled per exact solution by case_run (same value at both resolutions)


def run_code(ex, N, order, t0, vacuum, Lam, geom):
    import aurel
    fd = make_fd(N, order, geom)
    E = ex.eval(t0, fd.x, fd.y, fd.z)
    rel = aurel.AurelCore(fd, verbose=False, vacuum=vacuum, Lambda=Lam)
    rel.data["gammadown3"] = E["gamma"]
    rel.data["Kdown3"] = E["K"]
    rel.data["alpha"] = E["alpha"]
    rel.data["betaup3"] = E["beta"]
    rel.data["dtalpha"] = E["dtalpha"]
    rel.data["dtbetaup3"] = E["dtbeta"]
    E["Tdown4"] = (einstein(E["g4"], E["dg4"], E["ddg4"]) + Lam * E["g4"]) / KAPPA
    if not vacuum:
        rel.data["Tdown4"] = E["Tdown4"]
    if PRE_READ[0]:
        # a user looks at its inputs before freezing them (e.g. `assert (rel['gammadet'] > 0).all()`): reading an
        # input is not a calculation and must not weaken the protection freeze_data() gives it afterwards
        for k in ("alpha", "gammadown3", "Kdown3", "betaup3"):
            rel[k]
    rel.freeze_data()
    return rel, E, fd


def scales(E, Lam):
    """size of the individual terms of each key, from the exact fields only"""
    mx = lambda a: float(np.max(np.abs(a)))
    a, b, gu, K = E["alpha"], E["beta"], E["gu"], E["K"]
    Ku = np.einsum("ia...,jb...,ij...->ab...", gu, gu, K)
    KK = np.einsum("ij...,ij...->...", K, Ku)
    n = np.concatenate([(1 / a)[None], -b / a])
    T = E["Tdown4"]
    rho = np.einsum("ab...,a...,b...->...", T, n, n)
    S = -np.einsum("ij...,j...->i...", gu, np.einsum("ja...,a...->j...", T[1:], n))
    Aup = np.einsum("ia...,jb...,ab...->ij...", gu, gu, E["At"])        # conformal weights cancel in sizes only roughly
    return {
        "Hamiltonian": max(mx(E["Ktr"] ** 2), mx(KK), 2 * KAPPA * mx(rho), 2 * abs(Lam)),
        "Momentumup3": max(mx(Ku), KAPPA * mx(S)),
        "dtKtrace": max(mx(E["dt_Ktr"]), mx(a * KK), 0.5 * KAPPA * mx(a * rho), mx(a) * abs(Lam)),
        "dtphi_bssnok": max(mx(E["dt_phi"]), mx(a * E["Ktr"]) / 6),
        "dtgammaup3": max(mx(E["dt_gu"]), 2 * mx(a * Ku)),
        "dtgammadown3_bssnok": max(mx(E["dt_gt"]), 2 * mx(a * E["At"])),
        "dtAdown3_bssnok": max(mx(E["dt_At"]), mx(a * E["Ktr"] * E["At"])),
        "dts_Gamma_bssnok": max(mx(E["dt_Gam"]), 2 * mx(a) * mx(Aup), 2 * KAPPA * mx(a * S)),
    }


def box(a, N):
    """central physical sub-box [3/8, 5/8) of the grid: two nested stencils of order <= 6 are centred there"""
    lo, hi = (3 * N) // 8, N - (3 * N) // 8
    return a[..., lo:hi, lo:hi, lo:hi]


REL_TOL = {2: 5e-2, 4: 1e-3, 6: 2e-4}


def judge(order, e_max, e_rms, scale, N2):
    """error small relative to the individual terms AND shrinking by >= 2^p / 2.5 when the resolution doubles (observed on
    the unchanged tree: within [2^p / 1.6, 2^p * 1.5]), or already at the round-off floor"""
    (m1, m2), (r1, r2) = e_max, e_rms
    floor = 1e-13 * scale * N2 ** 2 * 50
    small = m2 <= REL_TOL[order] * scale
    ratio = r1 / r2 if r2 > 0 else np.inf
    conv = (ratio >= 2.0 ** order / 2.5) or (r2 <= floor)
    return small and conv, ratio


def case_run(ctx, spec):
    """spec: dict(kind, gen_seed, order, N, vacuum_flag, Lambda, shift) -> list of (key, ok, detail numbers)"""
    rng = np.random.default_rng(spec["gen_seed"])
    if spec["kind"] == "kerr-schild":
        a, b, g = kerr_schild_moving(rng)
    else:
        a, b, g = random_gauge_solution(rng, shift=spec.get("shift", True))
    geom = (1.0, tuple(rng.uniform(-0.6, -0.4, size=3)), tuple(rng.uniform(0.9, 1.1, size=2)))
    t0 = float(rng.uniform(0.0, 1.0))
    ex = Exact(a, b, g)
    out = []
    PRE_READ[0] = bool(spec.get("pre_read", spec["gen_seed"] % 2))
    ctx.count("solutions_with_inputs_read_before_freeze", int(PRE_READ[0]))
    for order in spec["orders"]:
        N1, N2 = spec["N"], 2 * spec["N"]
        res = {}
        for N in (N1, N2):
            rel, E, fd = run_code(ex, N, order, t0, spec["vacuum"], spec["Lambda"], geom)
            if spec["kind"] == "kerr-schild" and N == N1 and order == spec["orders"][0]:
                gres = float(np.max(np.abs(E["Tdown4"])) * KAPPA)
                ctx.obligation("oracle self-test: the oracle's Einstein tensor vanishes on the Kerr-Schild metric",
                               gres < 1e-9, "max |G_mu_nu| = %.2e" % gres, kind="oracle-selftest")
            sc = scales(E, spec["Lambda"])
            # request history: a few other quantities first, then the eight keys in a shuffled order, so that the
            # 'already cached' alternatives of the intermediate quantities (s_Ricci_down3 from a cached Riemann
            # tensor, Ktrace from Kup3, ...) are exercised as well; the same history at both resolutions
            hrng = np.random.default_rng(spec["gen_seed"] + 7919 * order)
            warm = [str(k) for k in hrng.choice(WARMUP, size=int(hrng.integers(0, 5)), replace=False)]
            for wk in warm:
                rel[wk]
            ctx.count("warmup_requests", len(warm))
            order_keys = [KEYS[i] for i in hrng.permutation(len(KEYS))]
            for key, exk in order_keys:
                got = np.asarray(rel[key])
                exact = E[exk] if exk else np.zeros_like(got)
                dif = box(got - exact, N)
                res.setdefault(key, []).append((float(np.max(np.abs(dif))), float(np.sqrt(np.mean(dif ** 2))), sc[key]))
        for key, _ in KEYS:
            (m1, r1, s1), (m2, r2, s2) = res[key]
            ok, ratio = judge(order, (m1, m2), (r1, r2), s2, N2)
            out.append((key, order, ok, {"err_coarse": m1, "err_fine": m2, "ratio_rms": float(ratio), "scale": s2,
                                         "N": [N1, N2]}))
    return out


def witnesses(ctx):
    """the two minimal inputs on which dtgammaup3 / dtphi_bssnok were wrong before 75ab97b / a03aaf1 (exact: no FD error)"""
    import aurel
    found = 0
    p = {"Nx": 10, "Ny": 10, "Nz": 10, "xmin": -1., "ymin": -1., "zmin": -1., "dx": .2, "dy": .2, "dz": .2}
    for order in (2, 4, 6):
        fd = aurel.FiniteDifference(p, fd_order=order, verbose=False)
        one, zero = np.ones(fd.x.shape), np.zeros(fd.x.shape)
        I3 = np.array([[one, zero, zero], [zero, one, zero], [zero, zero, one]])
        # FLRW a = 2, a' = 3, alpha = 1, beta = 0: gamma_ij = a^2 delta, K_ij = -a a' delta
        rel = aurel.AurelCore(fd, verbose=False)
        rel.data["gammadown3"] = 4 * I3
        rel.data["Kdown3"] = -6 * I3
        rel.freeze_data()
        checks = [("witness FLRW: dt gamma^ij = -2 a'/a^3 delta", "dtgammaup3", rel["dtgammaup3"], -0.75 * I3),
                  ("witness FLRW: dt phi = a'/(2a)", "dtphi_bssnok", rel["dtphi_bssnok"], 0.75 * one),
                  ("witness FLRW: dt gamma~_ij = 0", "dtgammadown3_bssnok", rel["dtgammadown3_bssnok"], 0 * I3)]
        # flat static slice, alpha = 1, beta = (x,0,0): dt gamma_ij = 0  =>  K_xx = 1
        rel = aurel.AurelCore(fd, verbose=False)
        K = 0 * I3
        K[0, 0] = one
        rel.data["gammadown3"] = I3
        rel.data["Kdown3"] = K
        rel.data["betaup3"] = np.array([fd.x, zero, zero])
        rel.freeze_data()
        checks += [("witness flat slice, beta=(x,0,0): dt phi = 0", "dtphi_bssnok", rel["dtphi_bssnok"], zero),
                   ("witness flat slice, beta=(x,0,0): dt gamma^ij = 0", "dtgammaup3", rel["dtgammaup3"], 0 * I3),
                   ("witness flat slice, beta=(x,0,0): dt gamma~_ij = 0", "dtgammadown3_bssnok", rel["dtgammadown3_bssnok"], 0 * I3)]
        for what, key, got, exp in checks:
            ctx.count("oracle_evaluations")
            err = float(np.max(np.abs(np.asarray(got) - exp)))
            if not err <= 1e-11:
                found += ctx.violation("%s: deviation %.3g (fd_order %d)" % (what, err, order),
                                       {"kind": "input", "oracle": what, "key": key, "witness": True, "fd_order": order},
                                       {"site": key, "oracle": what})
    # de Sitter in flat slicing (T = 0, Lambda = 3 H^2; exact on the grid: all fields constant): a = 2, H = 1/2.
    # With the documented option vacuum=True ("no matter") AND the solution's own Lambda the constraint must vanish.
    fd = aurel.FiniteDifference(p, fd_order=4, verbose=False)
    one, zero = np.ones(fd.x.shape), np.zeros(fd.x.shape)
    I3 = np.array([[one, zero, zero], [zero, one, zero], [zero, zero, one]])
    for vac in (False, True):
        rel = aurel.AurelCore(fd, verbose=False, vacuum=vac, Lambda=0.75)
        rel.data["gammadown3"] = 4 * I3
        rel.data["Kdown3"] = -2 * I3
        rel.freeze_data()
        for key, exact in (("Hamiltonian", 0.0), ("dtKtrace", 0.0)):      # K = -3H is constant in time
            ctx.count("oracle_evaluations")
            err = float(np.max(np.abs(np.asarray(rel[key]) - exact)))
            if not err <= 1e-11:
                found += 1 if ctx.violation(
                    "de Sitter (T = 0, Lambda = 0.75) with AurelCore(vacuum=%s, Lambda=0.75): %s = %.3g, exact value 0 "
                    "(the vacuum shortcut drops the Lambda term)" % (vac, key, err),
                    {"kind": "input", "oracle": "de Sitter witness", "key": key, "witness": True, "vacuum": vac, "Lambda": 0.75},
                    {"kind": "vacuum_flag_ignores_Lambda"} if vac else {"site": key, "oracle": "de Sitter witness"}) else 0
    return found


def cone_alternatives(index):
    """(key, present set) of every alternative, recorded by the translator from the CURRENT source, of every quantity
    in the dependency cone of the eight C06 keys"""
    deps, alts = {}, {}
    for i in index:
        if i.get("status") != "ok":
            continue
        deps.setdefault(i["key"], set()).update(i["deps"])
        for ps in i["present_sets"]:
            alts.setdefault(i["key"], set()).add(tuple(sorted(ps)))
    cone, todo = set(), [k for k, _ in KEYS]
    while todo:
        k = todo.pop()
        if k in cone:
            continue
        cone.add(k)
        todo += [d for d in deps.get(k, ()) if d not in cone]
    out = []
    for k in sorted(cone):
        for ps in sorted(alts.get(k, ())):
            if ps:
                out.append((k, list(ps)))
    return out


def history_pass(ctx, index):
    """Every alternative ('X already in the cache') of every intermediate quantity must leave the constraints and the
    dt-quantities where a fresh instance puts them, up to the discretisation error: for each alternative recorded by the
    translator, the keys of its presence set are requested first, then the eight keys; the deviation from the fresh values
    may not exceed 30 x the fresh values' own error against the exact solution (sympy oracle), or round-off."""
    import aurel
    found = 0
    alts = cone_alternatives(index)
    seen, hist = set(), []
    for k, ps in alts:
        if tuple(ps) not in seen:
            seen.add(tuple(ps))
            hist.append((k, ps))
    ctx.cov["history_pass_alternatives"] = len(hist)
    gen_seed = ctx.rng.randrange(10 ** 6)
    for vacuum in (False, True):
        rng = np.random.default_rng(gen_seed)
        if vacuum:
            a, b, g = kerr_schild_moving(rng)
        else:
            a, b, g = random_gauge_solution(rng, shift=True)
        geom = (1.0, tuple(rng.uniform(-0.6, -0.4, size=3)), tuple(rng.uniform(0.9, 1.1, size=2)))
        t0, Lam, N, order = float(rng.uniform(0.0, 1.0)), (0.0 if vacuum else 0.6), 12, 4
        ex = Exact(a, b, g)
        fresh, tol = {}, {}
        for key, exk in KEYS:
            rel, E, fd = run_code(ex, N, order, t0, vacuum, Lam, geom)
            fresh[key] = np.asarray(rel[key]).copy()
            exact = E[exk] if exk else np.zeros_like(fresh[key])
            sc = scales(E, Lam)[key]
            tol[key] = max(30 * float(np.max(np.abs(box(fresh[key] - exact, N)))), 1e-9 * sc)
        for k, ps in hist:
            rel, E, fd = run_code(ex, N, order, t0, vacuum, Lam, geom)
            try:
                for q in ps:
                    if q in aurel.descriptions:
                        rel[q]
            except Exception as exn:  # noqa
                ctx.count("history_pass_unrequestable")
                continue
            for key, _ in KEYS:
                ctx.count("history_pass_evaluations")
                dev = float(np.max(np.abs(box(np.asarray(rel[key]) - fresh[key], N))))
                if not dev <= tol[key]:
                    found += ctx.violation(
                        "%s after requesting %s first (alternative of %s) differs from a fresh instance by %.3g > %.3g "
                        "(30 x discretisation error), vacuum=%s" % (key, ps, k, dev, tol[key], vacuum),
                        {"kind": "history", "key": key, "requested_first": ps, "alternative_of": k, "vacuum": vacuum,
                         "gen_seed": gen_seed, "deviation": dev, "tolerance": tol[key]},
                        {"site": key, "oracle": "history-independence", "alternative_of": k})
    return found


def specs_for(ctx, n_matter, n_vac, orders, N):
    out = []
    for i in range(n_matter):
        lam = [None, 0.0, -0.8][i % 3] if ctx.tier == "thorough" else None
        if lam is None:
            lam = round(ctx.rng.choice([-1, 1]) * ctx.rng.uniform(0.3, 1.0), 3)
        out.append({"kind": "random-gauge", "gen_seed": ctx.rng.randrange(10 ** 6), "orders": list(orders), "N": N,
                    "vacuum": False, "Lambda": lam, "shift": not (ctx.tier == "thorough" and i % 4 == 3),
                    "pre_read": i % 2 == 0})
    for i in range(n_vac):
        out.append({"kind": "kerr-schild", "gen_seed": ctx.rng.randrange(10 ** 6), "orders": list(orders), "N": N,
                    "vacuum": (i % 2 == 0), "Lambda": 0.0, "pre_read": i % 2 == 1})
    return out


def search(ctx, specs):
    found = witnesses(ctx)
    for spec in specs:
        t0 = time.time()
        label = "%s, vacuum=%s, Lambda=%s" % (spec["kind"], spec["vacuum"], spec["Lambda"])
        for key, order, ok, num in case_run(ctx, spec):
            ctx.count("oracle_evaluations")
            oracle = ("constraint -> 0" if key in ("Hamiltonian", "Momentumup3") else "exact d/dt of the exact field") + \
                     " (%s)" % ("exact vacuum solution" if spec["kind"] == "kerr-schild" else "T=(G+Lambda g)/kappa")
            if not ok:
                found += ctx.violation(
                    "%s, fd_order %d, %s: error %.3g -> %.3g (ratio %.2f) at N = %s, size of the terms %.3g"
                    % (key, order, label, num["err_coarse"], num["err_fine"], num["ratio_rms"], num["N"], num["scale"]),
                    dict({"kind": "input", "oracle": oracle, "key": key, "fd_order": order, "spec": spec}, **num),
                    {"site": key, "oracle": oracle})
            ctx.cov.setdefault("worst_relative_error", {})
            w = ctx.cov["worst_relative_error"]
            w[key] = max(w.get(key, 0.0), num["err_fine"] / num["scale"])
        ctx.count("exact_solutions")
        ctx.sample({"solution": label, "gen_seed": spec["gen_seed"], "orders": spec["orders"], "N": [spec["N"], 2 * spec["N"]],
                    "seconds": round(time.time() - t0, 1)})
    return found


def run(ctx):
    ctx.trusted += corecheck.TRUSTED
    ctx.trusted += ["sympy differentiation + lambdify and numpy.linalg (search oracle only)"]
    ctx.assumptions += [
        "NOT covered by any theorem (trusted): that R~_ij + R^phi_ij is the Ricci tensor of gamma_ij (Alcubierre 2.8.16; hypothesis hRic of the "
        "dtAdown3_bssnok theorems); the convergence order of the composed finite-difference expressions; round-off. These are watched by the "
        "sympy oracle on exact solutions at two resolutions (a test, labelled as such). [Since the second extension round the GAUSS and CODAZZI "
        "equations, the pair antisymmetries, the ADM evolution equation of K_ij, the Hamiltonian and the momentum constraint are no longer "
        "assumptions: Props/C06e derives them, for exact differentiation (jets as symbols: Layer B), from Einstein's equations for the textbook "
        "Riemann tensor (Landau-Lifshitz 92.1) of the 4-metric assembled from (alpha, beta, gamma), whose time derivatives are K_ij (kinematic "
        "relation), dtalpha, dtbetaup3 and universally quantified second time derivatives.] [Third extension round, Props/C06f: hRic is no longer "
        "an assumption either - the theorems dtAdown3_bssnok_*_of_einstein_noRic replace it by BssnokRicciHyp (cached BSSNOK entries produced by "
        "the code's formulas, psi != 0, and the Layer-B operator instances ProdRuleInv / ConfRules / ConfChain / BssnRules of Props/C05b, C05d, "
        "all derived from Deriv + DComm, psi^12 = det gamma and d(logF psi) psi = d psi: bssnokRicciHyp_of_deriv), using C05's theorem "
        "s_Ricci_down3_bssnok + s_Ricci_down3_phi = s_Ricci_down3.]",
        "Hypotheses that REMAIN in the '..._of_einstein' / '..._textbook' theorems of Props/C06e, all stated there: CurvHyp (assembled metric, "
        "det gamma != 0, gamma_ij and K_ij symmetric, cached connection torsion-free and metric compatible, gammaup3 the inverse, alpha != 0, "
        "2 != 0, commuting difference operators, s_Riemann_down3 = the textbook 3-Riemann tensor, which is property C05's theorem); the cached "
        "entries gammaup3, gup4, nup4, gammaup4, DDalpha, Ktrace, Kup3, rho_n, Stresstrace_n, Stressup3_n, Stressdown3_n, fluxup3_n, s_RicciS "
        "produced by the code's own formulas and s_Ricci_down3 = contraction of s_Riemann_down3; OnShell (G_ab + Lambda g_ab = kappa T_ab for the "
        "assembled jet with the supplied Tdown4, Lambda, kappa; vacuum branches: G_ab = 0); for the momentum constraint D_c gamma^ab = 0 and the "
        "product rule for e.D; for the BSSNOK keys the conformal-weight relations, d(psi^-4) = -4 psi^-4 d(phi), the phi-equation and the product "
        "rules already listed for Props/C06b, C06d (and commuting d_t, d_i for dts_Gamma_bssnok).",
        "Layer B theorems for dtAdown3_bssnok (= d_t(psi^-4 (K_ij - gamma_ij K/3)), NO constraint used) and dts_Gamma_bssnok (= d_t(-d_j gamma~^ij)) "
        "of Props/C06b, C06d take as hypotheses: additivity + product rule for d_t and d_i, for dts_Gamma_bssnok also that d_t commutes with d_i and d_i with d_j, the "
        "kinematic relation, the ADM evolution equation of K_ij (with Lambda), d(psi^-4) = -4 psi^-4 d(phi), gamma^ij the two-sided inverse, "
        "D_c gamma^ab = 0, and for dts_Gamma_bssnok the momentum constraint (Momentumup3 = 0, brought to the conformal form Alcubierre 2.8.24 by a theorem); "
        "Props/C06e replaces the ADM-evolution and constraint hypotheses by Einstein's equations. "
        "The finite-difference operators satisfy the product rule and commute with d_t only up to truncation error: continuum statements.",
        "Layer B theorems (dtgammaup3, dtphi_bssnok, dtgammadown3_bssnok are d/dt of gamma^-1, ln(det gamma)/12, psi^-4 gamma_ij) take the "
        "product rule for d_t and d_i and the kinematic relation d_t gamma_ij = -2 alpha K_ij + L_beta gamma_ij as hypotheses; the logarithm and "
        "psi^-4 enter only through d(ln x) = dx/x and d(psi^-4) = -4 psi^-4 d(phi)",
        "round-off is not modelled; kappa != 0, 2 != 0 (characteristic) where a theorem divides"]
    r = corecheck.regen_and_validate(ctx, NEEDED)
    if r is not None and not ctx.broken():
        ctx.prove(MODULE, THEOREMS, timeout=2400)
        for mod, thms in EXTRA:
            ctx.prove(mod, thms, timeout=2400)
        ctx.forbidden_scan(LEAN_FILES)
        if ctx.tier == "thorough":
            ctx.leanchecker([MODULE] + [m for m, _ in EXTRA])
    extra = 1 if ctx.broken() else 0
    if ctx.tier == "thorough":
        specs = specs_for(ctx, 8 + extra, 3, (2, 4, 6), 16)
    else:
        specs = specs_for(ctx, 1 + extra, 1, (4, 6), 16)
    with np.errstate(all="ignore"):
        search(ctx, specs)
        if r is not None:
            history_pass(ctx, r[2])
    ctx.cov["search_space"] = ("smooth 3+1 fields a0 + a1 sin(k.x + w t + p) for lapse, shift and the 6 metric components (random k, w, p), "
                               "Lambda in +-[0.3,1] / 0 / -0.8; Kerr-Schild Schwarzschild in moving coordinates (vacuum=True and vacuum=False "
                               "with T=0); fd_order 4, 6 (thorough: 2, 4, 6); N = 16 -> 32; one-sided boundary stencils, central sub-box compared")


def replay(ctx, obj):
    with np.errstate(all="ignore"):
        if obj.get("witness"):
            return 1 if witnesses(ctx) else 0
        spec = obj.get("spec")
        if not spec:
            return 1 if search(ctx, specs_for(ctx, 1, 1, (4, 6), 16)) else 0
        bad = [k for k, order, ok, num in case_run(ctx, spec) if not ok and k == obj.get("key")]
        print("replay: %s still failing" % bad if bad else "replay: no longer failing")
        return 1 if bad else 0


MANIFEST = {
    "category": "proof",
    "technique": "Lean 4 theorems (ring / field_simp / matrix algebra / finite-sum manipulation over an arbitrary field) about formulas regenerated "
                 "from core.py by symbolic execution, against a hand-written index-notation specification of the ADM constraints and BSSNOK evolution "
                 "equations; translation validation each run; independent sympy exact-solution oracle at two resolutions as failing-input search",
    "text": "Proof for every input, every field and every finite-difference operator, for both values of `vacuum`: Hamiltonian = R + K^2 - K_ij K^ij "
            "- 2 kappa rho - 2 Lambda; Momentumup3 = D_j(K^ij - gamma^ij K) - kappa S^i; dtKtrace, dtphi_bssnok, dtgammaup3, dtgammadown3_bssnok, "
            "dtAdown3_bssnok, dts_Gamma_bssnok equal the cited equations (Baumgarte-Shapiro 2.132, 2.133, 2.137, 11.35-11.38; Alcubierre "
            "2.8.9-2.8.12, 2.8.25) term by term: signs and coefficients of the lapse, shift, matter (kappa) and Lambda terms, density weights "
            "1/6, -2/3, +2/3, which terms the vacuum branches drop (dtKtrace's vacuum branch also drops Lambda); rho_n, fluxup3_n, Stress* are "
            "T n n, -gamma T n, gamma gamma T (S_ij = T_ij). Layer B (product rule for d_t, d_i and d_t gamma_ij = -2 alpha K_ij + L_beta gamma_ij as "
            "hypotheses): dtgammaup3 = d_t(gamma^-1), dtphi_bssnok = d_t(ln det gamma / 12) (Jacobi's formula as a field identity), "
            "dtgammadown3_bssnok = d_t(psi^-4 gamma_ij); with the ADM evolution equation of K_ij as a further hypothesis: "
            "dtAdown3_bssnok = d_t(psi^-4 (K_ij - gamma_ij K/3)) (both branches, no constraint needed), and with the Hamiltonian constraint "
            "dtKtrace = d_t(gamma^ij K_ij), using A~_ij A~^ij = K_ij K^ij - K^2/3; with commuting derivatives and the momentum constraint: "
            "d_t gamma~^ij = L_beta gamma~^ij + (2/3) gamma~^ij d_k beta^k + 2 alpha A~^ij and dts_Gamma_bssnok = d_t(Gamma~^i), Gamma~^i = -d_j gamma~^ij "
            "(both branches), where the conformal form of the momentum constraint (Alcubierre 2.8.24) is derived from the code's Momentumup3 = 0 "
            "(metric compatibility as hypothesis; Gamma~^j_jm = 0 derived from phi = ln det gamma / 12 by Jacobi's formula). Constraints: for any 4-index tensor R4 with the pair antisymmetries that satisfies "
            "the Gauss and Codazzi equations, Hamiltonian = 2 (G + Lambda g - kappa T)_mu_nu n^mu n^nu and Momentumup3^i = -gamma^{i mu} (G + Lambda g - "
            "kappa T)_mu_nu n^nu with G the Einstein tensor of R4, hence Einstein's equations => both constraints vanish (vacuum branches: G = 0); "
            "the projector / unit-normal facts used (gamma^{mu nu} = g^{mu nu} + n^mu n^nu, n.n = -1, n_i = 0) are proven for the code's own gup4, "
            "gdown4, nup4, gammaup4; D_j(K^ij - gamma^ij K) = gamma^ia gamma^jb (D_j K_ab - D_a K_jb) from D gamma^ab = 0 and the product rule. "
            "Second extension (Props/C06e, Layer B on 2-jets = exact differentiation): the RICCI EQUATION as an off-shell identity for the textbook "
            "Riemann tensor (Landau-Lifshitz 92.1) of the 4-metric assembled from (alpha, beta, gamma): R_itjt = beta^k R_jkit + beta^k R_ikjt - "
            "beta^k beta^l R_ikjl + alpha (d_t K_ij - L_beta K_ij) + alpha D_iD_j alpha + alpha^2 K_ik K^k_j, where d_t K_ij is the quantity determined "
            "by d_t d_t gamma_ij through the Leibniz t-derivative of the kinematic relation; hence the ADM evolution equation d_t K_ij = -D_iD_j alpha + "
            "alpha (R_ij - 2 K_ik K^k_j + K K_ij - 4R_ij) + L_beta K_ij holds IF AND ONLY IF 4R_ij is the spatial Ricci block of the assembled metric, "
            "and with G + Lambda g = kappa T it is exactly Spec/ADM.dtKdown with the code's S_ij, S, rho, Lambda, kappa, DDalpha (both branches). "
            "The Gauss / Codazzi / antisymmetry hypotheses of C06c are discharged for that textbook tensor (C04b), so Einstein's equations => "
            "Hamiltonian = 0 and Momentumup3 = 0 without any Gauss-Codazzi assumption; dtKtrace = d_t(gamma^ij K_ij), dtAdown3_bssnok = d_t A~_ij, "
            "dts_Gamma_bssnok = d_t Gamma~^i are restated with the ADM-evolution, Hamiltonian and momentum hypotheses REPLACED by Einstein's equations "
            "for the assembled jet (jet form and, for d_t a derivation commuting with d_i, operator form: then d_t d_t gamma_ij IS the Leibniz derivative).",
    "note": "PARTIAL scope, stated: everything beyond the term-by-term spec match is LAYER B (consistency): jets are symbols / operators obey the "
            "product rule and commute, i.e. exact differentiation; the finite-difference operators satisfy this only up to truncation error, and NO "
            "theorem covers the convergence order of the composed expressions nor round-off. Within Layer B, 'the constraints vanish on every exact "
            "solution' and 'dtKtrace, dtAdown3_bssnok, dts_Gamma_bssnok are the true t-derivatives on shell' are now proven FROM EINSTEIN'S EQUATIONS "
            "for the textbook Riemann tensor of the assembled 4-metric (Props/C06e): the Gauss-Codazzi equations (via C04b), the ADM evolution "
            "equation of K_ij and both constraints are no longer hypotheses. Hypotheses that remain, all stated: CurvHyp (symmetric gamma_ij, K_ij, "
            "metric-compatible torsion-free cached connection, gammaup3 = inverse, alpha != 0, commuting difference operators, s_Riemann_down3 = "
            "textbook 3-Riemann = C05's theorem), cached entries produced by the code's formulas, s_Ricci_down3 = contraction of s_Riemann_down3, "
            "for the momentum constraint D_c gamma^ab = 0 + product rule, the kinematic relation (definition of K_ij), and for dtAdown3_bssnok "
            "'R~_ij + R^phi_ij is the Ricci tensor of gamma' (Alcubierre 2.8.16), which Props/C06f (third extension round) DISCHARGES with "
            "property C05's new theorem ricci_bssnok_split (Props/C05d: the code's (2.8.17) expression is the Ricci tensor of the unit-determinant "
            "conformal metric, and R~_ij + R^phi_ij equals the direct s_Ricci_down3): the theorems dtAdown3_bssnok_is_dt_conformal_of_einstein_noRic, "
            "..._vacuum_..._noRic, dtAdown3_bssnok_is_dt_of_einstein_noRic carry BssnokRicciHyp (cached BSSNOK entries = the code's formulas, psi != 0, Layer-B "
            "operator instances derived from Deriv + DComm + psi^12 = det gamma + d(logF psi) psi = d psi) instead of hRic; non-vacuity of "
            "BssnokRicciHyp at a curved unit-determinant point with a non-zero operator (Props/C06fEx, R~_xx + R^phi_xx = -396), not jointly with "
            "the on-shell points of Props/C06eEx. The older theorems (C06, C06b-d) with "
            "the ADM equation / constraints / Gauss-Codazzi as hypotheses are kept. All of this is additionally TESTED by the sympy "
            "oracle (random smooth 4-metrics in a random gauge with T := (G + Lambda g)/kappa, and a moving Kerr-Schild vacuum solution; constraints "
            "-> 0 and each dt-key -> exact d/dt at two resolutions, fd_order 4 and 6). Non-vacuity: concrete rational instances next to each theorem "
            "(FLRW point satisfying ALL of Einstein's equations with its Gauss-Codazzi 4-Riemann tensor; anisotropic Bianchi-I point for dtAdown3_bssnok; "
            "conformally flat point with a gradient of phi for Alcubierre 2.8.24; for Props/C06e: the on-shell point of C04b with lapse 2, shift, sheared "
            "metric, matter and Lambda (d_t K_zz = -3/2), the Kasner point with all 16 Ricci components zero (d_t K_xx = -2/9 exactly), a generic 2-jet "
            "with non-zero connection); the operator-form hypotheses (Deriv, commutation) are satisfiable "
            "over Q only by the zero operator (static point shown), over a differential field by d/dt. Trusted: Lean kernel + "
            "propext/Classical.choice/Quot.sound; the symbolic-execution translator (validated each run); numpy semantics; exact arithmetic instead of "
            "IEEE-754; the book equations as transcribed in Spec/ADM.lean, Spec/GaussCodazzi.lean, Spec/RicciEquation.lean, Spec/Riemann4Jet.lean (equation numbers from memory). The oracle found two "
            "genuine defects (sign of the lapse term of dtgammaup3; dtphi_bssnok multiplied the shift divergence by phi), fixed in /repo 75ab97b and "
            "a03aaf1; their minimal witnesses are part of every run.",
}
