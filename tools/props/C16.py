"""C16 — the grid object describes exactly the grid the parameters specify.

Theorems (Props/C16.lean) are about the hand-written model Model/Grid.lean
(+ the real-valued spherical maps of Lemmas/Grid.lean).  The model is tied to
finitedifference.py by correspondence on:

  axis     N, centre index, first/last point, every position  (`grid`, `pts`)
  object   FiniteDifference(param, fd_order): N, max, centres, order, mask_len,
           shapes of x y z r theta phi cartesian_coords spherical_coords,
           stacking orders, AurelCore.data_shape and shapes of quantities that
           mix fd.x / fd.cartesian_coords with data_shape-arrays       (`fd`)
  sph      discrete branch structure of cartesian_to_spherical         (`sph`)
  cut      cutoffmask / cutoffmask2, ranks 1-3                         (`cut`)
  exc      excision / excision2 incl. None entries, 'find', IndexError (`exc`)

Positions: exact float equality with `min + i*d` evaluated by the harness and
the rigorous two-rounding bound against the model's rational.  Independent
search oracle: `min + i*spacing`, `N`, shapes, spherical round trip (the one
place a float tolerance is used: 1e-12 * r, everywhere incl. next to the axes;
the witnesses of the former arccos form stay in the corpus), cutoff by positive indices.
"""
import itertools
import math
from fractions import Fraction

import numpy as np

from lib import fw

MODULE = "AurelVerif.Props.C16"
THEOREMS = ["AurelVerif.C16." + t for t in (
    "arange_exact", "constructor_defined_iff", "shapes", "attributes", "pointwise_shape",
    "stacking_orders", "spherical_roundtrip", "spherical_ranges", "sph_descriptor_sound",
    "arctan2_is_arg", "cut_exact", "maskLen_table",
    "cutoffmask_rank1", "cutoffmask2_rank1", "cutoff_rank2", "cutoffmask_rank2", "cutoffmask2_rank2",
    "cutoff_rank3", "cutoffmask_rank3", "cutoffmask2_rank3", "ixcenter_minimal", "excision_slice")]
FILES = ["AurelVerif/Props/C16.lean", "AurelVerif/Lemmas/Grid.lean", "AurelVerif/Model/Grid.lean",
         "AurelVerif/Model/Splice.lean", "Driver/C16.lean"]

SPACINGS = [0.1, 0.3, 1 / 3, 0.7, 0.05, 0.2, 1.0, 0.25, 0.5, 1e-3, 2 / 7, 1.1, 3.0, 0.6, 1e6 / 3]
MINIMA = [-10.5, 0.0, -1.0, -0.35, 1e-3, -3.3, 7.0, -1e5, -2 / 3]
ORDERS = [2, 4, 6, 8]
AX = "xyz"


# ------------------------------------------------------------------ helpers
def fr(x):
    return Fraction(float(x))


def frs(x):
    f = fr(x)
    return "%d %d" % (f.numerator, f.denominator)


def parse_q(s):
    n, _, d = s.partition("/")
    return Fraction(int(n), int(d))


def make_fd(param, order=4):
    import aurel
    param = dict(param)
    boundary = param.pop("_boundary", None)       # harness-only key: the boundary option of the constructor
    if boundary:
        return aurel.FiniteDifference(param, fd_order=order, boundary=boundary, verbose=False)
    return aurel.FiniteDifference(param, fd_order=order, verbose=False)


def mkparam(N, mins, ds):
    return {"Nx": N[0], "Ny": N[1], "Nz": N[2], "xmin": mins[0], "ymin": mins[1], "zmin": mins[2],
            "dx": ds[0], "dy": ds[1], "dz": ds[2]}


def with_extras(rng, p):
    """the same grid described by a dictionary that carries MORE keys, as the ones aurel.parameters() builds from an
    Einstein Toolkit parameter file do: domain edges xmax/ymax/zmax (generally NOT grid points: for a periodic
    domain the grid ends one spacing earlier), box lengths, time step, names.  Only N*, *min, d* define the grid."""
    q = dict(p)
    kind = rng.choice(("edge", "edge-plus", "inside", "other"))
    for a in AX:
        last = p[a + "min"] + (p["N" + a] - 1) * p["d" + a]
        q[a + "max"] = {"edge": last + p["d" + a], "edge-plus": last + 2.5 * p["d" + a], "inside": last - p["d" + a],
                        "other": 1234.5}[kind]
        q["L" + a] = q[a + "max"] - p[a + "min"]
    q.update({"dtfac": 0.25, "simname": "sim", "simpath": "/nowhere/", "max_refinement_levels": 3,
              "N" : 7, "min": -1.0, "max": 1.0, "d": 0.1})
    return q


def param_words(p):
    return "%d %d %d %s %s %s %s %s %s" % (p["Nx"], p["Ny"], p["Nz"], frs(p["xmin"]), frs(p["ymin"]),
                                           frs(p["zmin"]), frs(p["dx"]), frs(p["dy"]), frs(p["dz"]))


def pos_bound(mn, d, i, xf):
    """Rigorous bound on |fl(mn + fl(i*d)) - (mn + i*d)|: i is exact, two
    roundings to nearest."""
    t = float(i) * d
    return Fraction(math.ulp(t)) / 2 + Fraction(math.ulp(xf)) / 2


def field(line, key):
    for w in line.split(" "):
        if w.startswith(key + "="):
            return w[len(key) + 1:]
    return None


def tup(s):
    return tuple(int(v) for v in s.split(","))


# --------------------------------------------------- independent oracle (search)
def first_of(ctx, key, limit=2):
    """report at most `limit` concrete inputs per failure site (the rest are
    counted in coverage) so that one defect does not print hundreds of lines."""
    seen = ctx.__dict__.setdefault("_c16_seen", {})
    seen[key] = seen.get(key, 0) + 1
    if seen[key] > limit:
        ctx.count("further_failing_inputs_not_listed")
        return False
    return True


def oracle_grid(ctx, p, order):
    """Property text against the real code, no model involved.  Returns number
    of violations reported."""
    found = 0

    def viol(what, site, **extra):
        if not first_of(ctx, (site, extra.get("axis") or extra.get("attr"))):
            return 1
        rp = {"kind": "input", "op": "grid", "param": p, "fd_order": order}
        rp.update(extra)
        return 1 if ctx.violation(what, rp, {"site": site}) else 0
    try:
        fd = make_fd(p, order)
    except Exception as ex:  # noqa
        if min(p["Nx"], p["Ny"], p["Nz"]) >= 1:
            return viol("FiniteDifference(%r) raised %s" % (p, type(ex).__name__), "constructor")
        return 0
    shape = (p["Nx"], p["Ny"], p["Nz"])
    for a in AX:
        N, mn, d = p["N" + a], p[a + "min"], p["d" + a]
        arr = getattr(fd, a + "array")
        if len(arr) != N or getattr(fd, "N" + a) != N:
            found += viol("%sarray has %d points, fd.N%s = %r, param N%s = %d"
                          % (a, len(arr), a, getattr(fd, "N" + a), a, N), "count", axis=a)
            continue
        exp = [mn + i * d for i in range(N)]
        bad = [i for i in range(N) if arr[i] != exp[i]]
        if bad:
            i = bad[0]
            found += viol("%sarray[%d] = %r, min + i*d = %r" % (a, i, arr[i], exp[i]), "position",
                          axis=a, index=i, observed=float(arr[i]), expected=exp[i])
        if getattr(fd, a + "max") != exp[-1]:
            found += viol("%smax = %r, last grid point min+(N-1)*d = %r" % (a, getattr(fd, a + "max"), exp[-1]),
                          "max", axis=a)
        if getattr(fd, a + "min") != mn:
            found += viol("%smin = %r, parameter %r" % (a, getattr(fd, a + "min"), mn), "min", axis=a)
        c = int(getattr(fd, "i%scenter" % a))
        ab = [abs(v) for v in exp]
        if not (0 <= c < N) or ab[c] != min(ab) or any(ab[j] == ab[c] for j in range(c)):
            found += viol("i%scenter = %d is not the first index of minimal |%s|" % (a, c, a), "center", axis=a)
    for name in ("x", "y", "z", "r", "theta", "phi"):
        if np.shape(getattr(fd, name)) != shape:
            found += viol("fd.%s has shape %r, data shape %r" % (name, np.shape(getattr(fd, name)), shape),
                          "shape", attr=name)
    for name in ("cartesian_coords", "spherical_coords"):
        if np.shape(getattr(fd, name)) != (3,) + shape:
            found += viol("fd.%s has shape %r, expected %r" % (name, np.shape(getattr(fd, name)), (3,) + shape),
                          "shape", attr=name)
    if (fd.Nx, fd.Ny, fd.Nz) == shape and np.shape(fd.x) == shape:
        I, J, K = np.meshgrid(np.arange(shape[0]), np.arange(shape[1]), np.arange(shape[2]), indexing="ij")
        for a, idx in zip(AX, (I, J, K)):
            if not np.array_equal(getattr(fd, a), p[a + "min"] + idx * p["d" + a]):
                found += viol("fd.%s[i,j,k] differs from %smin + index*d%s" % (a, a, a), "meshgrid", attr=a)
    if min(shape) >= 1:
        import aurel
        rel = aurel.AurelCore(fd, verbose=False)
        if tuple(rel.data_shape) != shape or np.shape(rel["alpha"]) != shape:
            found += viol("AurelCore.data_shape = %r, rel['alpha'].shape = %r, grid shape %r"
                          % (tuple(rel.data_shape), np.shape(rel["alpha"]), shape), "data_shape")
    # the grid's own arrays are not scratch space: a later conversion of OTHER same-shaped points (AurelCore does this
    # for an off-centre extraction sphere) leaves r/theta/phi, the coordinate arrays and earlier results what they were
    if min(shape) >= 1:
        names = ("xarray", "yarray", "zarray", "x", "y", "z", "r", "theta", "phi", "cartesian_coords", "spherical_coords")
        before = {n: np.array(getattr(fd, n), copy=True) for n in names}
        with np.errstate(all="ignore"):
            ra, ta, pa = fd.cartesian_to_spherical(fd.x + 0.25, fd.y - 0.5, fd.z + 1.0)
            keep = [np.array(v, copy=True) for v in (ra, ta, pa)]
            xb = fd.spherical_to_cartesian(np.asarray(ra) + 1.0, ta, pa)
            keepb = [np.array(v, copy=True) for v in xb]
            fd.cartesian_to_spherical(fd.x - 3.0, fd.y + 2.0, fd.z * 0.5)
            fd.spherical_to_cartesian(np.asarray(fd.r) * 2.0, fd.theta, fd.phi)
        for n in names:
            if not np.array_equal(getattr(fd, n), before[n], equal_nan=True):
                found += viol("fd.%s changed when other points were converted with cartesian_to_spherical / "
                              "spherical_to_cartesian" % n, "grid-array-overwritten", attr=n)
                break
        if any(not np.array_equal(a, b, equal_nan=True) for a, b in zip((ra, ta, pa), keep)) or \
                any(not np.array_equal(a, b, equal_nan=True) for a, b in zip(xb, keepb)):
            found += viol("the arrays returned by an earlier coordinate conversion changed when another conversion "
                          "was made", "conversion-result-overwritten")
    ctx.count("oracle_grids")
    return found


def oracle_roundtrip(ctx, p, order, fd=None, special_points=False):
    """spherical_to_cartesian(cartesian_to_spherical(x,y,z)) = (x,y,z) on the
    object's own grid and on special points; ranges.  Tolerance 1e-12 * r."""
    found = 0
    try:
        fd = fd or make_fd(p, order)
    except Exception:  # noqa
        return 0
    special = np.array([[0, 0, 0], [0, 0, 1], [0, 0, -1], [1, 0, 0], [-1, 0, 0], [0, 1, 0], [0, -1, 0],
                        [-1, 0, 2], [-1, 0, -2], [1, 1, 1], [-1, -1, -1], [-2, 1e-300, 0], [-2, -1e-300, 0],
                        [-0.0, 0.0, 1.0], [-1.0, -0.0, 0.0], [3, -4, 0], [-3, 4, 12], [1e-8, 1e-8, 1.0],
                        [1.0, 1e-8, 0.0], [-1.0, -1e-8, 0.5], [1e-6, 0.0, -1.0], [2e-6, 1e-6, 2.0], [0.5, 2e-7, -1.2],
                        [1e-12, -1e-12, -3.0], [-4.0, 1e-10, 1e-10],
                        [2.5, 0, 0], [-2.5, 0, -0.0], [0, 0, 1e-140], [1e140, -1e140, 1e139]], dtype=float)
    sets = [("grid", fd.x.ravel(), fd.y.ravel(), fd.z.ravel())]
    if special_points:
        sets.append(("special", special[:, 0].copy(), special[:, 1].copy(), special[:, 2].copy()))
        # random points next to (not on) the z-axis and next to the half-planes y = 0
        rng = ctx.rng
        near = []
        for _ in range(ctx.budget(2000, 20000)):
            s_ = 10.0 ** rng.uniform(-14, -2)
            a = rng.uniform(-math.pi, math.pi)
            zz = rng.choice([-1, 1]) * rng.uniform(0.1, 5.0)
            near.append([s_ * math.cos(a), s_ * math.sin(a), zz])
            xx = rng.choice([-1, 1]) * rng.uniform(0.1, 5.0)
            near.append([xx, rng.choice([-1, 1]) * s_ * abs(xx), rng.uniform(-2, 2)])
        near = np.array(near)
        sets.append(("near-axis random", near[:, 0].copy(), near[:, 1].copy(), near[:, 2].copy()))
    for label, x, y, z in sets:
        r, th, ph = fd.cartesian_to_spherical(x, y, z)
        X, Y, Z = fd.spherical_to_cartesian(r, th, ph)
        r0 = np.sqrt(x * x + y * y + z * z)
        rho = np.sqrt(x * x + y * y)
        tol = 1e-12 * r0
        err = np.maximum(np.maximum(np.abs(X - x), np.abs(Y - y)), np.abs(Z - z))
        bad = ~(err <= tol)
        rng_bad = ~((r >= 0) & (th >= 0) & (th <= np.pi) & (ph >= -np.pi) & (ph <= np.pi))
        # former witnesses of the arccos form (fixed in 2743d11) stay in `special`; no region is exempt
        near = ((rho < 1e-3 * r0) & (rho > 0)) | ((np.abs(y) < 1e-3 * rho) & (y != 0))
        for kind, region, mask in (("roundtrip", "generic", bad & ~near), ("roundtrip", "near_axis", bad & near),
                                   ("range", "generic", rng_bad)):
            if mask.any():
                if not first_of(ctx, (kind, region)):
                    found += 1
                    continue
                i = int(np.argmax(mask))
                pt = [float(x[i]), float(y[i]), float(z[i])]
                found += 1 if ctx.violation(
                    "%s fails at (x,y,z)=%r (%s point): r,theta,phi = %r,%r,%r -> %r, error %.3g > 1e-12*r" % (
                        kind, pt, label, float(r[i]), float(th[i]), float(ph[i]),
                        [float(X[i]), float(Y[i]), float(Z[i])], float(err[i])),
                    {"kind": "input", "op": "roundtrip", "point": pt, "param": p, "fd_order": order,
                     "observed": [float(X[i]), float(Y[i]), float(Z[i])]},
                    {"site": kind, "region": region}) else 0
        ctx.count("oracle_roundtrip_points", len(x))
    return found


def oracle_cut(ctx, order, dims):
    """cutoffmask / cutoffmask2 against positive-index slicing."""
    found = 0
    p = mkparam((3, 3, 3), (0.0, 0.0, 0.0), (1.0, 1.0, 1.0))
    fd = make_fd(p, order)
    o = order if order in (2, 6, 8) else 4
    f = np.arange(int(np.prod(dims))).reshape(dims)
    for which, m, fn in ((1, o // 2, fd.cutoffmask), (2, o, fd.cutoffmask2)):
        exp = f[tuple(slice(min(m, n), max(min(m, n), n - m)) for n in dims)]
        got = fn(f)
        if got is None or got.shape != exp.shape or not np.array_equal(got, exp):
            if not first_of(ctx, ("cut", which, len(dims))):
                found += 1
                continue
            found += 1 if ctx.violation(
                "cutoffmask%s order %d on shape %r: got shape %r, expected %r (remove %d per side)"
                % ("" if which == 1 else "2", order, dims, None if got is None else got.shape, exp.shape, m),
                {"kind": "input", "op": "cut", "which": which, "fd_order": order, "dims": list(dims)},
                {"site": "cutoffmask%d" % which, "rank": len(dims)}) else 0
    ctx.count("oracle_cuts")
    return found


# ------------------------------------------------------------------ generators
def axis_cases(ctx):
    """(N, min, d): every spacing x minima sample, N from 1 (and 0) to ~70."""
    rng = ctx.rng
    out = [(0, 0.0, 1.0), (1, -10.5, 0.7), (30, -10.5, 0.7)]
    nmax = ctx.budget(70, 140)
    for d in SPACINGS:
        for mn in rng.sample(MINIMA, ctx.budget(3, len(MINIMA))):
            for N in sorted(set(rng.sample(range(1, nmax + 1), ctx.budget(4, 14)) + [3, nmax])):
                out.append((N, mn, d))
        # centred grids (min = -N*d/2 and -(N-1)*d/2): near-ties of |x|
        for N in rng.sample(range(2, nmax + 1), ctx.budget(3, 8)):
            out.append((N, -N * d / 2, d))
            out.append((N, -(N - 1) * d / 2, d))
    for _ in range(ctx.budget(20, 200)):
        d = rng.choice([rng.uniform(1e-3, 5.0), 10 ** rng.uniform(-6, 4), rng.randint(1, 64) / 64])
        mn = rng.choice([rng.uniform(-100, 100), -rng.randint(0, 40) * d, 0.0, rng.uniform(-1, 1) * 1e-3])
        out.append((rng.randint(1, nmax), mn, d))
    return out


def object_cases(ctx):
    """(param, order): non-cubic, all orders (+ unknown orders), one long axis."""
    rng = ctx.rng
    out = []
    nmax = ctx.budget(70, 100)
    for order in ORDERS + [3, 5, 0]:
        nmin = 3 * ((order if order in ORDERS else 4) // 2)  # stencil minimum, no boundary
        for _ in range(ctx.budget(6, 14)):
            long_ax = rng.randrange(3)
            N = [rng.randint(max(1, nmin - 2), nmin + 6) for _ in range(3)]
            N[long_ax] = rng.randint(nmin, nmax)
            ds = [rng.choice(SPACINGS[:9]) for _ in range(3)]
            mins = [rng.choice(MINIMA + [-N[k] * ds[k] / 2]) for k in range(3)]
            q = mkparam(N, mins, ds)
            out.append((with_extras(rng, q) if rng.random() < 0.3 else q, order))
    out.append((mkparam((30, 4, 5), (-10.5, 0.0, -1.0), (0.7, 0.3, 1 / 3)), 4))
    out.append((mkparam((1, 1, 1), (0.0, 0.0, 0.0), (0.1, 0.1, 0.1)), 2))
    out.append((mkparam((5, 0, 5), (0.0, 0.0, 0.0), (0.1, 0.1, 0.1)), 4))
    out.append((mkparam((0, 3, 5), (0.0, 0.0, 0.0), (0.1, 0.1, 0.1)), 4))
    return out


def sph_cases(ctx):
    """dyadic grids (coordinates and squares exact in double) containing the
    origin, the axes, the negative x half-plane."""
    rng = ctx.rng
    out = [mkparam((5, 5, 5), (-2.0, -2.0, -2.0), (1.0, 1.0, 1.0)),
           mkparam((7, 3, 4), (-1.5, -0.5, -0.75), (0.5, 0.5, 0.25)),
           mkparam((4, 4, 4), (0.0, 0.0, 0.0), (1.0, 1.0, 1.0)),
           mkparam((6, 5, 3), (-5.0, 0.0, -1.0), (1.0, 0.25, 1.0))]
    for _ in range(ctx.budget(6, 30)):
        N = [rng.randint(1, 9) for _ in range(3)]
        ds = [rng.choice([0.25, 0.5, 1.0, 2.0, 0.125]) for _ in range(3)]
        mins = [-rng.randint(0, N[k]) * ds[k] + rng.choice([0, 0, ds[k] / 2]) for k in range(3)]
        out.append(mkparam(N, mins, ds))
    return out


def cut_cases(ctx):
    rng = ctx.rng
    out = []
    for order in ORDERS + [5]:
        m2 = 2 * (order if order in ORDERS else 4)
        for rank in (1, 2, 3):
            hi = m2 + (6 if rank < 3 else 3)
            for _ in range(ctx.budget(6, 25)):
                out.append((order, tuple(rng.randint(1, hi) for _ in range(rank))))
            out.append((order, (m2 + 1,) * rank))       # one sample survives cutoffmask2
            out.append((order, (m2,) * rank))           # nothing survives cutoffmask2
            out.append((order, (m2 // 2 + 1,) * rank))  # one sample survives cutoffmask
    return out


def exc_cases(ctx):
    """(which, order, shape, (sx, sy, sz)) with ints (also negative / out of
    range) and None."""
    rng = ctx.rng
    out = []
    for which, order in itertools.product((1, 2), ORDERS):
        m = order // 2
        for _ in range(ctx.budget(8, 40)):
            shape = tuple(rng.randint(1, 3 * m + 8) for _ in range(3))
            s = []
            for n in shape:
                s.append(rng.choice([rng.randrange(n), rng.randrange(n), 0, n - 1, rng.randint(0, min(n - 1, m + 1)),
                                     None, -1, -rng.randint(1, n + 1), n, n + 1]))
            out.append((which, order, shape, tuple(s)))
        out.append((which, order, (4 * m + 5,) * 3, (0, 0, 0)))
        out.append((which, order, (4 * m + 5,) * 3, (2 * m + 2,) * 3))
    return out


# --------------------------------------------------------------- correspondence
def corr_axis(ctx, cases, outs):
    """cases[k] -> outs[2k] (grid), outs[2k+1] (pts)."""
    bad = []
    ties = 0
    stats = {"n_cases": len(cases), "N_max": 0, "err_cases": 0, "points": 0}
    for k, (N, mn, d) in enumerate(cases):
        g, pts = outs[2 * k], outs[2 * k + 1]
        p = mkparam((N, 1, 1), (mn, 0.0, 0.0), (d, 1.0, 1.0))
        try:
            fd = make_fd(p)
        except IndexError:
            fd = None
        except Exception as ex:  # noqa
            bad.append(("grid %d %r %r" % (N, mn, d), "impl raised %s" % type(ex).__name__))
            continue
        tag = "grid N=%d min=%r d=%r" % (N, mn, d)
        if fd is None or g == "err":
            stats["err_cases"] += 1
            if not (fd is None and g == "err"):
                bad.append((tag, "impl %s, model %s" % ("IndexError" if fd is None else "ok", g)))
            continue
        stats["N_max"] = max(stats["N_max"], N)
        mN, mc = int(field(g, "N")), int(field(g, "c"))
        first, lastq = parse_q(field(g, "first")), parse_q(field(g, "last"))
        xs = [parse_q(w) for w in pts.split(" ")[1:]]
        arr = fd.xarray
        if not (len(arr) == fd.Nx == mN == len(xs)):
            bad.append((tag, "count: len(xarray)=%d fd.Nx=%r model N=%d" % (len(arr), fd.Nx, mN)))
            continue
        if fr(arr[0]) != first:
            bad.append((tag, "first point %r, model %s" % (arr[0], first)))
        if fd.xmax != arr[-1] or abs(fr(fd.xmax) - lastq) > pos_bound(mn, d, N - 1, float(fd.xmax)):
            bad.append((tag, "xmax %r, xarray[-1] %r, model %s" % (fd.xmax, arr[-1], lastq)))
        for i in range(N):
            xf = float(arr[i])
            if xf != mn + i * d:
                bad.append((tag, "xarray[%d]=%r != min+i*d=%r" % (i, xf, mn + i * d)))
                break
            if abs(fr(xf) - xs[i]) > pos_bound(mn, d, i, xf):
                bad.append((tag, "xarray[%d]=%r further than the rounding bound from model %s" % (i, xf, xs[i])))
                break
        stats["points"] += N
        c = int(fd.ixcenter)
        if c != mc:
            # allowed only when rounding makes |x| tie / swap: both within the bound
            gap = abs(abs(xs[c]) - abs(xs[mc]))
            if 0 <= c < N and gap <= pos_bound(mn, d, c, float(arr[c])) + pos_bound(mn, d, mc, float(arr[mc])):
                ties += 1
            else:
                bad.append((tag, "ixcenter %d, model %d" % (c, mc)))
    stats["center_differs_by_rounding_only"] = ties
    return bad, stats


def sph_attr_order(fd):
    """names of fd.spherical_coords[k], by array identity of values."""
    names = []
    for k in range(3):
        hit = [n for n in ("r", "theta", "phi") if np.array_equal(fd.spherical_coords[k], getattr(fd, n))]
        names.append("|".join(hit) or "?")
    return names


def ret_order(fd):
    """which of (r, theta, phi) each returned position of cartesian_to_spherical
    is, decided on the point (0, 1, 1): r = sqrt 2, inclination pi/4, azimuth pi/2."""
    out = fd.cartesian_to_spherical(np.array([0.0]), np.array([1.0]), np.array([1.0]))
    names = []
    for v in out:
        v = float(v[0])
        names.append("r" if abs(v - math.sqrt(2)) < 1e-12 else "theta" if abs(v - math.pi / 4) < 1e-12
                     else "phi" if abs(v - math.pi / 2) < 1e-12 else "?")
    return names


def corr_object(ctx, cases, outs):
    import aurel
    import aurel.time as atime
    bad = []
    stats = {"n_cases": len(cases), "err_cases": 0, "orders": {}, "max_points": 0}
    for (p, order), line in zip(cases, outs):
        tag = "fd order=%r %r" % (order, p)
        try:
            fd = make_fd(p, order)
        except IndexError:
            fd = None
        except Exception as ex:  # noqa
            bad.append((tag, "impl raised %s" % type(ex).__name__))
            continue
        if fd is None or line == "err":
            stats["err_cases"] += 1
            if not (fd is None and line == "err"):
                bad.append((tag, "impl %s, model %s" % ("IndexError" if fd is None else "ok", line[:40])))
            continue
        stats["orders"][str(order)] = stats["orders"].get(str(order), 0) + 1
        stats["max_points"] = max(stats["max_points"], p["Nx"] * p["Ny"] * p["Nz"])
        diffs = []

        def eq(what, impl, model):
            if impl != model:
                diffs.append("%s: impl %r model %r" % (what, impl, model))
        eq("N", (fd.Nx, fd.Ny, fd.Nz), tup(field(line, "N")))
        eq("len(arrays)", (len(fd.xarray), len(fd.yarray), len(fd.zarray)), tup(field(line, "N")))
        eq("order", fd.fd_order, int(field(line, "order")))
        eq("mask_len", fd.mask_len, int(field(line, "mask")))
        for name in ("x", "y", "z"):
            eq("shape " + name, np.shape(getattr(fd, name)), tup(field(line, name)))
        for name in ("r", "theta", "phi"):
            eq("shape " + name, np.shape(getattr(fd, name)), tup(field(line, "sph")))
        cart = field(line, "cart")
        cn, _, cs = cart.partition("x")
        cshapes = [tup(s) for s in cs.split(";")]
        eq("cartesian_coords", np.shape(fd.cartesian_coords), (int(cn),) + cshapes[0])
        eq("cartesian_coords parts", len(set(cshapes)), 1)
        eq("spherical_coords", np.shape(fd.spherical_coords), (3,) + tup(field(line, "sph")))
        eq("rect", "true", field(line, "rect"))
        if fd.x.size > 1 and len({fd.r.tobytes(), fd.theta.tobytes(), fd.phi.tobytes()}) == 3:
            eq("spherical_coords order", sph_attr_order(fd), field(line, "sphorder").split(","))
        eq("cartesian_to_spherical return order", ret_order(fd), field(line, "ret").split(","))
        corder = field(line, "cartorder").split(",")
        eq("cartesian_coords order", [bool(np.array_equal(fd.cartesian_coords[k], getattr(fd, corder[k])))
                                      for k in range(3)], [True] * 3)
        # centres / extents against the model's rationals
        mc = tup(field(line, "c"))
        mx = [parse_q(s) for s in field(line, "max").split(",")]
        for k, a in enumerate(AX):
            N, mn, d = p["N" + a], p[a + "min"], p["d" + a]
            vmax = float(getattr(fd, a + "max"))
            if vmax != mn + (N - 1) * d or abs(fr(vmax) - mx[k]) > pos_bound(mn, d, N - 1, vmax):
                diffs.append("%smax: impl %r, min+(N-1)d %r, model %s" % (a, vmax, mn + (N - 1) * d, mx[k]))
            c = int(getattr(fd, "i%scenter" % a))
            if c != mc[k]:
                xs = [fr(mn) + i * fr(d) for i in range(N)]
                arr = getattr(fd, a + "array")
                gap = abs(abs(xs[c]) - abs(xs[mc[k]])) if 0 <= c < N else None
                if gap is None or gap > pos_bound(mn, d, c, float(arr[c])) + pos_bound(mn, d, mc[k], float(arr[mc[k]])):
                    diffs.append("i%scenter: impl %d model %d" % (a, c, mc[k]))
                else:
                    ctx.count("center_differs_by_rounding_only")
        for a in AX:
            arr = getattr(fd, a + "array")
            exp = [p[a + "min"] + i * p["d" + a] for i in range(p["N" + a])]
            if len(arr) != len(exp) or any(float(arr[i]) != exp[i] for i in range(len(exp))):
                diffs.append("%sarray differs from min + i*d" % a)
        # meshgrid contents
        sh = (fd.Nx, fd.Ny, fd.Nz)
        if np.shape(fd.x) == np.shape(fd.y) == np.shape(fd.z) == sh:
            ok = (np.array_equal(fd.x, np.broadcast_to(fd.xarray[:, None, None], sh))
                  and np.array_equal(fd.y, np.broadcast_to(fd.yarray[None, :, None], sh))
                  and np.array_equal(fd.z, np.broadcast_to(fd.zarray[None, None, :], sh)))
            eq("meshgrid ij contents", ok, True)
        # consumers mixing fd.N* / fd.x with param['N*'] (core.py 111, 662-681, 811; time.py 480)
        try:
            rel = aurel.AurelCore(fd, verbose=False)
            eq("AurelCore.data_shape", tuple(rel.data_shape), tup(field(line, "data")))
            eq("fd shape (time.py:480)", (fd.Nx, fd.Ny, fd.Nz), tup(field(line, "fdshape")))
            eq("data_shape == fd shape", tup(field(line, "data")), tup(field(line, "fdshape")))
            eq("shape rel['alpha']", np.shape(rel["alpha"]), tup(field(line, "data")))
            if min(fd.Nx, fd.Ny, fd.Nz) >= 3 * fd.mask_len:   # these differentiate: stencil minimum
                eq("shape rel['null_ray_exp_out']", np.shape(rel["null_ray_exp_out"]), tup(field(line, "data")))
                eq("shape rel['angmomdown3_n']", np.shape(rel["angmomdown3_n"]), (3,) + tup(field(line, "data")))
                stats["consumer_cases"] = stats.get("consumer_cases", 0) + 1
            seen = []
            atime.validate_estimation_function(lambda f: (seen.append(np.shape(f)), 1.0)[1], "probe", fd, verbose=False)
            eq("validate_estimation_function test array", seen[0], tup(field(line, "data")))
        except Exception as ex:  # noqa
            diffs.append("consumer raised %s: %s" % (type(ex).__name__, str(ex)[:120]))
        if diffs:
            bad.append((tag, "; ".join(diffs[:4])))
    return bad, stats


def corr_sph(ctx, cases, outs):
    bad = []
    stats = {"n_cases": len(cases), "points": 0, "masked": 0, "on_axis": 0, "origin": 0, "plane_z0_off_axis": 0,
             "sgnY": {"-1": 0, "0": 0, "1": 0}}
    pi, pi2 = float(np.pi), float(np.pi / 2)
    for p, line in zip(cases, outs):
        tag = "sph %r" % (p,)
        fd = make_fd(p)
        items = line.split(" ")[1:]
        r, th, ph = fd.r.ravel(), fd.theta.ravel(), fd.phi.ravel()
        if len(items) != r.size:
            bad.append((tag, "point count: impl %d model %d" % (r.size, len(items))))
            continue
        for i, it in enumerate(items):
            sy, sz, mk, ax, og, r2, rho2 = it.split(":")
            sy, sz, mk, ax, og, r2 = int(sy), int(sz), mk == "1", ax == "1", og == "1", parse_q(r2)
            stats["points"] += 1
            stats["masked"] += mk
            stats["on_axis"] += ax
            stats["origin"] += og
            stats["plane_z0_off_axis"] += (sz == 0 and not ax)
            stats["sgnY"][str(sy)] += 1
            d = None
            if r[i] != math.sqrt(float(r2)) or fr(float(r2)) != r2:
                d = "r=%r, model sqrt(%s)" % (r[i], r2)
            elif mk != (ph[i] == -pi):
                d = "phi=%r, model masked=%s" % (ph[i], mk)
            elif not mk and int(np.sign(ph[i])) != sy:
                d = "sign(phi)=%r (phi=%r), model sgnY=%d" % (np.sign(ph[i]), ph[i], sy)
            elif ax and ph[i] != 0.0:
                d = "phi=%r on the z-axis (model: arctan2(0,0) = 0)" % ph[i]
            elif ax and th[i] != (0.0 if sz >= 0 else pi):
                d = "theta=%r on the z-axis with sign(z)=%d" % (th[i], sz)
            elif not ax and sz == 0 and th[i] != pi2:
                d = "theta=%r in the plane z=0 (model: pi/2)" % th[i]
            elif og != (r[i] == 0.0):
                d = "r=%r, model origin=%s" % (r[i], og)
            elif not (0.0 <= th[i] <= pi) or (not ax and sz != 0 and (th[i] < pi2) != (sz > 0)):
                d = "theta=%r with sign(z)=%d" % (th[i], sz)
            if d:
                bad.append((tag + " point %d" % i, d))
                break
    return bad, stats


def corr_cut(ctx, cases, outs):
    bad = []
    stats = {"n_cases": 2 * len(cases), "ranks": {}, "empty_results": 0}
    fds = {}
    k = 0
    for order, dims in cases:
        fd = fds.setdefault(order, make_fd(mkparam((3, 3, 3), (0.0, 0.0, 0.0), (1.0, 1.0, 1.0)), order))
        f = np.arange(int(np.prod(dims))).reshape(dims)
        for which, fn in ((1, fd.cutoffmask), (2, fd.cutoffmask2)):
            line = outs[k]
            k += 1
            tag = "cut %d rank %d order %d dims %r" % (which, len(dims), order, dims)
            got = fn(f)
            axes = field(line, "axes").split(";")
            lens = tuple(0 if a == "empty" else int(a.split("..")[1]) - int(a.split("..")[0]) + 1 for a in axes)
            flat = [int(v) for v in line.partition("flat=")[2].split(" ") if v]
            stats["ranks"][str(len(dims))] = stats["ranks"].get(str(len(dims)), 0) + 1
            stats["empty_results"] += (len(flat) == 0)
            if got is None or got.shape != lens or [int(v) for v in got.ravel()] != flat:
                bad.append((tag, "impl shape %r values %r..., model axes %r flat %r..."
                            % (None if got is None else got.shape, None if got is None else got.ravel()[:6].tolist(),
                               axes, flat[:6])))
    return bad, stats


def exc_word(v):
    return "None" if v is None else str(v)


def corr_exc(ctx, cases, outs, find_cases, find_outs):
    bad = []
    stats = {"n_cases": len(cases) + len(find_cases), "IndexError": 0, "with_None": 0, "nothing_excised": 0}
    fds = {}
    for (which, order, shape, s), line in zip(cases, outs):
        fd = fds.setdefault(order, make_fd(mkparam((3, 3, 3), (0.0, 0.0, 0.0), (1.0, 1.0, 1.0)), order))
        f = np.zeros(shape)
        tag = "exc %d order %d shape %r is=%r" % (which, order, shape, s)
        stats["with_None"] += any(v is None for v in s)
        try:
            g = (fd.excision if which == 1 else fd.excision2)(f, isingularity=s)
            res = "ok " + " ".join(str(int(v)) for v in np.flatnonzero(np.isnan(g.ravel())))
            if f.any() or np.isnan(f).any():
                bad.append((tag, "input modified"))
        except IndexError:
            res = "err"
            stats["IndexError"] += 1
        except Exception as ex:  # noqa
            res = "raised " + type(ex).__name__
        stats["nothing_excised"] += (res == "ok ")
        if res != line:
            bad.append((tag, "impl %s | model %s" % (res[:80], line[:80])))
    for (which, order, p), line in zip(find_cases, find_outs):
        fd = make_fd(p, order)
        f = np.zeros((fd.Nx, fd.Ny, fd.Nz))
        g = (fd.excision if which == 1 else fd.excision2)(f)
        res = "ok " + " ".join(str(int(v)) for v in np.flatnonzero(np.isnan(g.ravel())))
        stats["nothing_excised"] += (res == "ok ")
        if res != line:
            bad.append(("excfind %d order %d %r" % (which, order, p), "impl %s | model %s" % (res[:80], line[:80])))
    return bad, stats


# ------------------------------------------------------------------------- run
def search(ctx, deep):
    found = 0
    rng = ctx.rng
    n = ctx.budget(60, 300) * (3 if deep else 1)
    for _ in range(n):
        order = rng.choice(ORDERS)
        N = [rng.randint(1, 12) for _ in range(3)]
        N[rng.randrange(3)] = rng.randint(3 * (order // 2), 70)
        ds = [rng.choice(SPACINGS[:6] + [rng.uniform(0.01, 2.0)]) for _ in range(3)]
        mins = [rng.choice(MINIMA[:4] + [-N[k] * ds[k] / 2, -(N[k] // 2) * ds[k]]) for k in range(3)]
        p = mkparam(N, mins, ds)
        if rng.random() < 0.35:
            p = with_extras(rng, p)
            ctx.count("oracle_grids_with_extra_keys")
        if rng.random() < 0.3:
            # the grid is the same grid whatever the boundary option of the derivative operators
            p["_boundary"] = rng.choice(("periodic", "symmetric", "no boundary"))
            ctx.count("oracle_grids_with_boundary_option")
        if rng.random() < 0.25:
            # integer-typed parameters on ONE axis (e.g. xmin=-8, dx=1) next to float ones on the others
            a = rng.choice(AX)
            p[a + "min"], p["d" + a] = int(rng.choice((-8, 0, 3))), int(rng.choice((1, 2)))
            ctx.count("oracle_grids_with_integer_axis")
        found += oracle_grid(ctx, p, order)
    # the documented example of the former defect
    found += oracle_grid(ctx, mkparam((30, 4, 4), (-10.5, 0.0, 0.0), (0.7, 0.1, 0.3)), 4)
    for _ in range(ctx.budget(6, 30) * (3 if deep else 1)):
        N = [rng.randint(2, 9) for _ in range(3)]
        ds = [rng.choice(SPACINGS[:9]) for _ in range(3)]
        mins = [rng.choice([-(N[k] // 2) * ds[k], -N[k] * ds[k] / 2, 0.0, -10.5]) for k in range(3)]
        found += oracle_roundtrip(ctx, mkparam(N, mins, ds), 4)
    # strongly anisotropic grid: grid points next to (not on) the z-axis
    found += oracle_roundtrip(ctx, mkparam((5, 5, 5), (-2e-6, -2e-6, -2.0), (1e-6, 1e-6, 1.0)), 4,
                              special_points=True)
    for order in ORDERS:
        for rank in (1, 2, 3):
            for _ in range(ctx.budget(3, 12)):
                found += oracle_cut(ctx, order, tuple(rng.randint(2 * order + 1, 2 * order + 6) for _ in range(rank)))
            found += oracle_cut(ctx, order, (2 * order + 1,) * rank)
    return found


def run(ctx):
    ctx.trusted += ["Lean 4.33 kernel; axioms propext, Classical.choice, Quot.sound",
                    "Model/Grid.lean and the real-valued cartToSph/sphToCart of Lemmas/Grid.lean are hand-written; "
                    "tied to finitedifference.py by the correspondence of this check",
                    "Model/Splice.lean slice semantics (shared with C07)",
                    "numpy indexing / meshgrid / argmin semantics; IEEE-754 round-to-nearest for the position bound"]
    ctx.assumptions += ["T1/T2/T4/T5 are over exact rationals; T3 over the reals: round-off of sqrt/arccos/sin/cos "
                        "is not modelled (checked numerically with tolerance 1e-12*r on grids and special points; "
                        "coordinates whose squares under/overflow, |v| < 1e-154 or > 1e154, are outside the search)",
                        "float positions are fl(min + fl(i*d)): equal to the harness' evaluation of the same "
                        "expression, within (ulp(i*d)+ulp(x))/2 of the exact rational",
                        "cutoffmask on rank 0 or >= 4 returns None (not modelled); excision with partially-None "
                        "isingularity is modelled as numpy does it (None = newaxis)"]
    ctx.prove(MODULE, THEOREMS)
    ctx.forbidden_scan(FILES)
    if ctx.tier == "thorough":
        ctx.leanchecker([MODULE])

    ax = axis_cases(ctx)
    ob = object_cases(ctx)
    sp = sph_cases(ctx)
    cu = cut_cases(ctx)
    ex = exc_cases(ctx)
    fx = [(w, o, p) for w in (1, 2) for o in ORDERS for p in (
        mkparam((9, 8, 10), (-4.0, -3.5, -4.5), (1.0, 1.0, 1.0)),
        mkparam((4 * o // 2 + 6,) * 3, (0.0, 0.0, 0.0), (0.5, 0.5, 0.5)),      # octant: centre = corner
        mkparam((12, 9, 9), (-11.0, -4.0, -1.0), (1.0, 1.0, 1.0)))]            # centre at the upper x end
    lines = []
    for (N, mn, d) in ax:
        lines += ["grid %d %s %s" % (N, frs(mn), frs(d)), "pts %d %s %s" % (N, frs(mn), frs(d))]
    n_ax = len(lines)
    lines += ["fd %d %s" % (o, param_words(p)) for p, o in ob]
    n_ob = len(lines)
    lines += ["sph 4 %s" % param_words(p) for p in sp]
    n_sp = len(lines)
    for o, dims in cu:
        for w in (1, 2):
            lines.append("cut %d %d %d %s" % (w, len(dims), o, " ".join(str(v) for v in dims)))
    n_cu = len(lines)
    lines += ["exc %d %d %d %d %d %s %s %s" % ((w, o) + sh + tuple(exc_word(v) for v in s)) for w, o, sh, s in ex]
    n_ex = len(lines)
    lines += ["excfind %d %d %s" % (w, o, param_words(p)) for w, o, p in fx]
    try:
        outs = ctx.run_driver("Driver/C16.lean", lines)
        if len(outs) != len(lines) or any(o == "bad-op" for o in outs):
            raise RuntimeError("driver returned %d lines for %d ops; bad-op at %r" % (
                len(outs), len(lines), [l for l, o in zip(lines, outs) if o == "bad-op"][:2]))
    except Exception as ex_:  # noqa
        outs = None
        ctx.obligation("correspondence:driver", False, repr(ex_), kind="correspondence")
    if outs is not None:
        parts = [
            ("axis arrays: N, centre, first/last, every position", corr_axis, (ax, outs[:n_ax])),
            ("FiniteDifference object: attributes, shapes, stacking orders, AurelCore consumers", corr_object, (ob, outs[n_ax:n_ob])),
            ("cartesian_to_spherical branch structure", corr_sph, (sp, outs[n_ob:n_sp])),
            ("cutoffmask / cutoffmask2 ranks 1-3", corr_cut, (cu, outs[n_sp:n_cu])),
            ("excision / excision2", corr_exc, (ex, outs[n_cu:n_ex], fx, outs[n_ex:])),
        ]
        for name, fn, args in parts:
            try:
                bad, stats = fn(ctx, *args)
            except Exception as ex_:  # noqa
                import traceback
                bad, stats = [("harness", traceback.format_exc()[-600:])], {}
            ctx.cov[fn.__name__] = stats
            ctx.obligation("correspondence: Model/Grid vs finitedifference.py — %s (%d cases)" % (name, stats.get("n_cases", 0)),
                           not bad, "; ".join("%s -> %s" % b for b in bad[:4]), kind="correspondence")
        ctx.cov["spacings"] = [repr(v) for v in SPACINGS]
        ctx.cov["minima"] = [repr(v) for v in MINIMA]
        ctx.sample({"op": lines[4], "model": outs[4]})
        ctx.sample({"op": lines[n_ax], "model": outs[n_ax][:300]})
        ctx.sample({"op": lines[n_ob], "model": outs[n_ob][:200]})
        ctx.sample({"op": lines[n_sp + 1], "model": outs[n_sp + 1]})
        ctx.sample({"op": lines[n_cu], "model": outs[n_cu][:200]})
    search(ctx, deep=bool(ctx.broken()))


def replay(ctx, obj):
    op = obj.get("op")
    if op == "grid":
        n = oracle_grid(ctx, obj["param"], obj.get("fd_order", 4))
    elif op == "roundtrip":
        import aurel  # noqa
        p = obj.get("param") or mkparam((3, 3, 3), (0.0, 0.0, 0.0), (1.0, 1.0, 1.0))
        fd = make_fd(p, obj.get("fd_order", 4))
        x, y, z = (np.array([float(v)]) for v in obj["point"])
        r, th, ph = fd.cartesian_to_spherical(x, y, z)
        X, Y, Z = fd.spherical_to_cartesian(r, th, ph)
        err = max(abs(X[0] - x[0]), abs(Y[0] - y[0]), abs(Z[0] - z[0]))
        ok = err <= 1e-12 * math.sqrt(x[0] ** 2 + y[0] ** 2 + z[0] ** 2) and r[0] >= 0 and 0 <= th[0] <= math.pi \
            and -math.pi <= ph[0] <= math.pi
        print("replay: point %r -> (r,theta,phi)=(%r,%r,%r) -> (%r,%r,%r)" % (obj["point"], r[0], th[0], ph[0], X[0], Y[0], Z[0]))
        n = 0 if ok else 1
    elif op == "cut":
        n = oracle_cut(ctx, obj["fd_order"], tuple(obj["dims"]))
    else:
        n = search(ctx, deep=False)
    print("replay: %d violation(s) now" % n)
    return 1 if n else 0


MANIFEST = {
    "category": "proof",
    "technique": "Lean 4 theorems over a hand-written executable grid model (exact rationals) and Mathlib real "
                 "analysis for the spherical maps; model tied to the code by exact correspondence (counts, shapes, "
                 "index sets, float positions == min+i*d and within the two-rounding bound of the model's rational)",
    "text": "Proof for all N >= 1, all min, all d > 0, every fd_order: the coordinate array has exactly N points at "
            "min + i*d, strictly increasing, the reported extent is the last point, (fd.Nx,fd.Ny,fd.Nz) equals "
            "AurelCore.data_shape, x/y/z/r/theta/phi and the stacked coordinate arrays are rectangular of the data "
            "shape with x[i,j,k] = xmin + i*dx etc.; over the reals spherical_to_cartesian(cartesian_to_spherical(p)) "
            "= p for EVERY point (axis and origin included, arctan2(0,0) = 0, the -pi mask) with "
            "theta in [0,pi], phi in [-pi,pi]; cutoffmask removes exactly mask_len and cutoffmask2 exactly "
            "2*mask_len samples per side and axis for ranks 1-3 and every length; ixcenter is the first index of "
            "minimal |x|. The constructor, cut-offs, excision and the branch structure of the spherical map are "
            "compared with the real code on every run.",
    "note": "Trusted: Lean kernel + propext/Classical.choice/Quot.sound; the hand-written model (validated by "
            "correspondence: spacings 0.1, 0.3, 1/3, 0.7, 0.05, 0.2, ..., minima such as -10.5, N = 0..70 (140 "
            "thorough), non-cubic grids, all fd_order and unknown orders); numpy semantics. Exact arithmetic in the "
            "theorems: float round-off of the positions is bounded by the harness (two roundings), of the spherical "
            "maps only checked numerically (1e-12*r everywhere, incl. points next to the axes); numpy arctan2 on reals is "
            "modelled as Complex.arg, signed zeros are outside the model. The stored order spherical_coords = [r, phi, theta] "
            "(radius, azimuth, inclination) is recorded as the code has it although the attribute documentation "
            "lists inclination before azimuth. excision near the lower edge excises nothing (negative slice start "
            "wraps) - proved about the model, outside the property text.",
}
