"""C17 — bundled analytic spacetimes are what they claim to be.

Tie A: Gen/Solutions.lean is regenerated from the ASTs of solutions/*.py on
every run (tools/py2lean/solutions.py); the theorems of Props/C17.lean are
re-checked against it.  Translation validation: the translator's own
expression trees are evaluated in Python and compared with the real module
functions at random points of each module's domain (relative 1e-12).

Independent sentinel on the REAL code (no use of the translator or of Lean):
 (a) numeric branch vs symbolic branch (sympy, evaluated at random points);
 (b) Kdown3 vs -(1/(2 alpha)) d/dt gammadown3 (zero shift; d/dt by sympy on the
     module's own symbolic metric, else Richardson-controlled central
     differences in t);
 (c) Einstein's equations G + Lambda g = kappa T: curvature of the module's
     symbolic 4-metric from exact sympy first/second derivatives evaluated at
     the point, against the module's matter functions, to float64 round-off:
     |difference| <= 1e-12 of the larger side + 3e-14 of the sum of |terms| added
     up (measured worst case over 12 seeds x 25 points x 9 modules: 7e-16 of the
     terms, i.e. a margin of 40; the former 1e-5 band existed only because
     Non_diagonal used 0.0833333 for 1/12, fixed in /repo commit 7527532).
     These equations are also THEOREMS (Props/C17Einstein.lean) for every
     module; the sentinel stays as the independent check on the real code;
 (d) the Schwarzschild Kretschmann closed form vs the metric (also a theorem now);
 (e) the hypergeometric antiderivative of the Szekeres zz theorem (a theorem since Props/C17Hyp.lean) with mpmath's
     hyp2f1 at 30 digits, (e') Pfaff's continuation, summed as Mathlib defines it, and scipy's hyp2f1 against mpmath;
 (f) informational: the residual of the growth relation for ICPertFLRW on LCDM (Props/C17Pert.lean).
"""
import importlib
import itertools
import math
import os
import re
import subprocess
import types

import numpy as np

from lib import fw
from py2lean import solutions as S

MODULE = "AurelVerif.Props.C17"
THEOREMS = ["AurelVerif.C17." + t for t in (
    "numeric_eq_symbolic_LCDM", "numeric_eq_symbolic_Conformally_flat", "numeric_eq_symbolic_Schwarzschild",
    "numeric_eq_symbolic_Harvey_Tsoubelis", "numeric_eq_symbolic_Collins_Stewart",
    "numeric_eq_symbolic_Non_diagonal", "numeric_eq_symbolic_Rosquist_Jantzen", "numeric_eq_symbolic_Szekeres",
    "lapse_shift_from_gdown4", "betaup3_is_zero",
    "a_dot_EdS", "K_is_metric_rate_EdS", "a_dot_LCDM", "K_is_metric_rate_LCDM",
    "K_is_metric_rate_Conformally_flat", "K_is_metric_rate_Schwarzschild", "K_is_metric_rate_Harvey_Tsoubelis",
    "K_is_metric_rate_Collins_Stewart", "K_is_metric_rate_Non_diagonal", "K_is_metric_rate_Rosquist_Jantzen",
    "K_is_metric_rate_Szekeres_except_zz", "K_is_metric_rate_Szekeres_partial", "Szekeres_dtZ_is_rate",
    "K_is_metric_rate_ICPertFLRW_EdS", "ICPertFLRW_background",
    "friedmann_EdS", "continuity_EdS", "friedmann_LCDM", "helper_derivatives")]
# part 2: Einstein's equations (Props/C17Einstein.lean; proofs in Lemmas/C17Ein*.lean, algebraic curvature of each
# metric family in Lemmas/C17Jet*.lean written by the developer tool tools/py2lean/c17_jetgen.py, Spec/Jet4.lean,
# Spec/MetricJet.lean).  Heavy (~8 min of CPU from scratch) but compiled once by `lake build` and then cached.
MODULE_EINSTEIN = "AurelVerif.Props.C17Einstein"
THEOREMS_EINSTEIN = ["AurelVerif.C17." + t for t in (
    "einstein_EdS", "einstein_LCDM", "einstein_Conformally_flat", "einstein_Schwarzschild", "null_expansion_Schwarzschild", "Schwarzschild_domain_iff",
    "einstein_Harvey_Tsoubelis", "einstein_Collins_Stewart", "einstein_Rosquist_Jantzen",
    "einstein_Non_diagonal", "Non_diagonal_domain_iff",
    "einstein_Szekeres_partial", "einstein_Szekeres_pointwise", "Szekeres_domain_iff")]
# part 3: the Gauss hypergeometric antiderivative of Szekeres proven (Props/C17Hyp.lean; Lemmas/C17PowSeries, C17HypDisc,
# C17HypPfaff, C17HypPfaffEq) and the Szekeres theorems with the hypothesis discharged.
MODULE_HYP = "AurelVerif.Props.C17Hyp"
THEOREMS_HYP = ["AurelVerif.C17." + t for t in (
    "hyp2f1_defs", "hyp2f1_antiderivative_disc", "hyp2f1_antiderivative", "hyp2f1_pfaff",
    "K_is_metric_rate_Szekeres", "K_is_metric_rate_Szekeres_disc", "Szekeres_dtZ_is_rate_hyp", "einstein_Szekeres",
    "Szekeres_series_agrees_on_disc")]
# part 4: ICPertFLRW at first order in the dual numbers (Props/C17Pert.lean; Spec/Constraints3.lean,
# Lemmas/C17PertFLRW.lean, Lemmas/C17PertInst.lean).
MODULE_PERT = "AurelVerif.Props.C17Pert"
THEOREMS_PERT = ["AurelVerif.C17." + t for t in (
    "ICPertFLRW_constraints_first_order", "ICPertFLRW_constraints_EdS", "ICPertFLRW_constraints_LCDM",
    "ICPertFLRW_data_affine", "ICPertFLRW_spatial_derivatives", "ICPertFLRW_metric_rate",
    "ICPertFLRW_K_is_metric_rate_of_growth", "EdS_growth_relation")]
# fallback attribution when Props/C17Einstein does not build: property theorem -> (lemma module, lemmas it is made of)
EINSTEIN_PARTS = {
    "einstein_EdS": ("FLRW", ("EdS_isJetField", "EdS_einstein")),
    "einstein_LCDM": ("FLRW", ("LCDM_isJetField", "LCDM_einstein")),
    "einstein_Conformally_flat": ("ConfFlat", ("Conformally_flat_isJetField", "Conformally_flat_einstein")),
    "einstein_Schwarzschild": ("Schw", ("Schwarzschild_isJetField", "Schwarzschild_einstein", "Schwarzschild_ricci_flat",
                                        "Schwarzschild_kretschmann")),
    "null_expansion_Schwarzschild": ("Schw", ("Schwarzschild_null_expansion",)),
    "Schwarzschild_domain_iff": ("Schw", ("Schwarzschild_facts",)),
    "einstein_Harvey_Tsoubelis": ("HT", ("Harvey_Tsoubelis_isJetField", "Harvey_Tsoubelis_einstein", "Harvey_Tsoubelis_ricci_flat")),
    "einstein_Collins_Stewart": ("CS", ("Collins_Stewart_isJetField", "Collins_Stewart_einstein")),
    "einstein_Rosquist_Jantzen": ("RJ", ("Rosquist_Jantzen_isJetField", "Rosquist_Jantzen_einstein")),
    "einstein_Non_diagonal": ("ND", ("Non_diagonal_isJetField", "Non_diagonal_einstein")),
    "Non_diagonal_domain_iff": ("ND", ("Non_diagonal_witness_domain",)),
    "einstein_Szekeres_partial": ("Szek", ("Szekeres_isJetField", "Szekeres_einstein")),
    "einstein_Szekeres_pointwise": ("Szek", ("Szekeres_gdown4_closed", "Szekeres_einstein")),
    "Szekeres_domain_iff": ("Szek", ("Szekeres_einstein",)),
}
LEAN_FILES = ["AurelVerif/Props/C17.lean", "AurelVerif/Lemmas/Solutions.lean", "AurelVerif/Gen/Solutions.lean",
              "AurelVerif/Props/C17Einstein.lean", "AurelVerif/Spec/Jet4.lean", "AurelVerif/Spec/MetricJet.lean",
              "AurelVerif/Lemmas/C17JetTac.lean", "AurelVerif/Lemmas/C17DerivTac.lean", "AurelVerif/Lemmas/C17JetCalc.lean"] + \
             ["AurelVerif/Lemmas/C17Jet%s.lean" % f for f in ("FLRW", "ConfFlat", "Schw", "HT", "CS", "RJ", "ND", "Szek")] + \
             ["AurelVerif/Lemmas/C17Ein%s.lean" % f for f in ("FLRW", "ConfFlat", "Schw", "HT", "CS", "RJ", "ND", "Szek")] + \
             ["AurelVerif/Lemmas/C17SzekWitness.lean"] + \
             ["AurelVerif/Props/C17Hyp.lean", "AurelVerif/Props/C17Pert.lean", "AurelVerif/Spec/Constraints3.lean"] + \
             ["AurelVerif/Lemmas/C17%s.lean" % f for f in ("PowSeries", "HypDisc", "HypPfaff", "HypPfaffEq", "PertFLRW", "PertInst")]
COSMO = ("EdS", "LCDM", "Szekeres", "ICPertFLRW")


def mod(name):
    return importlib.import_module("aurel.solutions." + name)


# ------------------------------------------------------------------ sampling
def sample_point(rng, m):
    """A point (t, x, y, z) inside the domain of module m, away from its singular sets."""
    if m in COSMO:
        t = rng.uniform(0.05, 1.5) * mod("LCDM").t_today_EdS
        L = 8.0
    elif m == "Non_diagonal":
        t = rng.uniform(1.0, 3.0)       # (A t)^2 = 2 needs t < 0.68
        L = 4.0
    else:
        t = rng.uniform(0.5, 3.0)
        L = 2.0
    if m == "Schwarzschild_isotropic":   # stay outside the horizon r = M/2 and away from r = 0
        xyz = [rng.choice((-1, 1)) * rng.uniform(0.6, 3.0) for _ in range(3)]
    else:
        xyz = [rng.uniform(-L, L) for _ in range(3)]
    return [t] + xyz


def grid_point(p):
    """The real functions unpack np.shape(x) into three sizes: one-point 3-D arrays."""
    return p[0], np.full((1, 1, 1), p[1]), np.full((1, 1, 1), p[2]), np.full((1, 1, 1), p[3])


def rel_err(a, b):
    a, b = float(a), float(b)
    if a == b:
        return 0.0
    if not (math.isfinite(a) and math.isfinite(b)):
        return float("inf")
    return abs(a - b) / max(abs(a), abs(b))


# ------------------------------------------------- translation validation
SCALAR_RANGES = {("EdS", "z"): (0.0, 5.0), ("EdS", "a"): (0.1, 2.0), ("EdS", "Hprop"): (1e-4, 1e-3)}


class JetFD:
    """fd stand-in for ICPertFLRW in which `Rc` is a float that remembers which partial derivative of Rc it is
    (multi-index (n1, n2, n3)); d3x/d3y/d3z return the next jet symbol eps * jets[n + e_k]."""

    class V(float):
        def __new__(cls, val, idx):
            o = float.__new__(cls, val)
            o.idx = idx
            return o

    def __init__(self, jets, eps):
        self.jets, self.eps = jets, eps

    def val(self, idx):
        return JetFD.V(self.eps * self.jets.get(tuple(idx), 0.0), tuple(idx))

    def _d(self, f, k):
        i = list(f.idx)
        i[k] += 1
        return self.val(i)

    def d3x(self, f):
        return self._d(f, 0)

    def d3y(self, f):
        return self._d(f, 1)

    def d3z(self, f):
        return self._d(f, 2)


def icpert_constraints(sol, t, jets, eps):
    """Hamiltonian and momentum constraint residuals (textbook formulas, numpy) of the REAL ICPertFLRW data
    (gammadown3, Kdown3, rho_bg (1 + delta1)) for Rc -> eps Rc with the given jet of Rc; spatial derivatives of the
    data from the module itself on the shifted jets (the formulas are affine in the jet)."""
    M = mod("ICPertFLRW")
    E = np.eye(3, dtype=int)
    aH = float(sol.a(t) * sol.Hprop(t))
    fd0, fd1 = JetFD({}, 0.0), JetFD(jets, 1.0)
    arr = lambda fn, f, idx: np.asarray(getattr(M, fn)(sol, f, t, f.val(idx)), dtype=float)

    def lin(fn, idx):
        # linear part of the (affine) module formula on the jet shifted by idx, without cancellation: central
        # difference in the amplitude with a step that makes the perturbation of order one
        s = 0.25 / aH ** int(sum(idx))
        return (arr(fn, JetFD(jets, s), idx) - arr(fn, JetFD(jets, -s), idx)) / (2 * s)
    g0, K0 = arr("gammadown3", fd0, (0, 0, 0)), arr("Kdown3", fd0, (0, 0, 0))
    g, K = g0 + eps * lin("gammadown3", (0, 0, 0)), K0 + eps * lin("Kdown3", (0, 0, 0))
    dg = eps * np.array([lin("gammadown3", E[k]) for k in range(3)])
    dK = eps * np.array([lin("Kdown3", E[k]) for k in range(3)])
    ddg = eps * np.array([[lin("gammadown3", E[k] + E[l]) for l in range(3)] for k in range(3)])
    rho = sol.rho(t) * (1 + eps * float(M.delta1(sol, fd1, t, fd1.val((0, 0, 0)))))
    gi = np.linalg.inv(g)
    Gl = 0.5 * (np.einsum("bdc->dbc", dg) + np.einsum("cdb->dbc", dg) - dg)
    Gam = np.einsum("ad,dbc->abc", gi, Gl)
    dgi = -np.einsum("ai,eij,jb->eab", gi, dg, gi)
    dGl = 0.5 * (np.einsum("ebdc->edbc", ddg) + np.einsum("ecdb->edbc", ddg) - ddg)
    dGam = np.einsum("ead,dbc->eabc", dgi, Gl) + np.einsum("ad,edbc->eabc", gi, dGl)
    Riem = (np.einsum("cadb->abcd", dGam) - np.einsum("dacb->abcd", dGam)
            + np.einsum("ace,edb->abcd", Gam, Gam) - np.einsum("ade,ecb->abcd", Gam, Gam))
    RS = np.einsum("bd,abad->", gi, Riem)
    Ktr = np.einsum("ij,ij->", gi, K)
    KK = np.einsum("ij,ik,jl,kl->", K, gi, gi, K)
    lam = getattr(sol, "Lambda", 0.0)
    ham = RS + Ktr ** 2 - KK - 2 * sol.kappa * rho - 2 * lam
    cov = dK - np.einsum("mca,mb->cab", Gam, K) - np.einsum("mcb,am->cab", Gam, K)
    mom = np.einsum("jk,jki->i", gi, cov) - np.einsum("jk,ijk->i", gi, cov)
    return ham, mom


def oracle_icpert_constraints(rng, p):
    """(g) ICPertFLRW satisfies the constraints at first order (theorem ICPertFLRW_constraints_first_order): the
    O(eps) coefficient of the residuals, by Richardson extrapolation from eps and eps/2, is zero relative to the
    first-order terms it is made of.  Jets of Rc vary on the Hubble scale (|n|-th derivative ~ (a H)^|n|)."""
    out = []
    t = p[0]
    for sname in ("EdS", "LCDM"):
        sol = mod(sname)
        aH = float(sol.a(t) * sol.Hprop(t))
        jets = {n: rng.uniform(-0.3, 0.3) * aH ** sum(n) for n in itertools.product(range(5), repeat=3) if sum(n) <= 4}
        eps = 1e-6
        hA, mA = icpert_constraints(sol, t, jets, eps)
        hB, mB = icpert_constraints(sol, t, jets, eps / 2)
        c1h, c1m = 2 * hB / (eps / 2) - hA / eps, 2 * mB / (eps / 2) - mA / eps
        H = float(sol.Hprop(t))
        sh = H ** 2 * max(abs(v) / aH ** sum(n) for n, v in jets.items())
        sm = sh * aH
        if not abs(c1h) <= 1e-4 * sh:
            out.append({"oracle": "icpert_constraints", "module": "ICPertFLRW", "component": ["hamiltonian", sname], "point": list(p),
                        "expected": 0.0, "observed": float(c1h),
                        "what": "ICPertFLRW(%s): Hamiltonian constraint violated at first order in Rc: d/d(eps) residual = %.6g (scale of its terms %.3g)" % (sname, c1h, sh)})
        for i in range(3):
            if not abs(c1m[i]) <= 1e-4 * sm:
                out.append({"oracle": "icpert_constraints", "module": "ICPertFLRW", "component": ["momentum", i, sname], "point": list(p),
                            "expected": 0.0, "observed": float(c1m[i]),
                            "what": "ICPertFLRW(%s): momentum constraint %d violated at first order in Rc: d/d(eps) residual = %.6g (scale %.3g)" % (sname, i, c1m[i], sm)})
    return out


class FDStub:
    """Stand-in for aurel.FiniteDifference in ICPertFLRW: every d3x/d3y/d3z of a
    named array returns a fresh random array named after the composition, so that
    the opaque reals `d3x_d3y_Rc` of the generated definitions get known values."""

    def __init__(self, rng, Rc):
        self.rng, self.names, self.cache = rng, {id(Rc): "Rc"}, {}
        self.keep = [Rc]

    def _op(self, op, f):
        name = "%s_%s" % (op, self.names[id(f)])
        if name not in self.cache:
            a = np.full(np.shape(f), self.rng.uniform(-1.0, 1.0))
            self.cache[name] = a
            self.names[id(a)] = name
            self.keep.append(a)
        return self.cache[name]

    def d3x(self, f):
        return self._op("d3x", f)

    def d3y(self, f):
        return self._op("d3y", f)

    def d3z(self, f):
        return self._op("d3z", f)


def pick(res, comp):
    import sympy as sp
    v = res
    if isinstance(v, sp.MatrixBase):
        return v[tuple(comp)] if len(comp) > 1 else v[comp[0]]
    for i in comp:
        if isinstance(v, sp.MatrixBase):
            v = v[i] if v.shape[1] == 1 or v.shape[0] == 1 else v[i, :]
        else:
            v = v[i]
    return v


def to_float(v, subs=None):
    import sympy as sp
    if subs is not None:
        return float(sp.N(sp.sympify(v).subs(subs), 30))
    a = np.asarray(v, dtype=float)
    return float(a.reshape(-1)[0]) if a.ndim else float(a)


def validate_translation(ctx, info, npts):
    import scipy.special as sc
    import sympy as sp
    defs = info["defs"]
    groups = {}
    for key in info["order"]:
        d = defs[key]
        if d["kind"] == "func":
            groups.setdefault((d["module"], d["py"], d["flag"]), []).append(d)
    bad, ncmp, worst = [], 0, 0.0
    for (m, py, flag), ds in groups.items():
        M = mod(m)
        f = getattr(M, py)
        d0 = ds[0]
        for _ in range(npts if flag is not True else max(1, npts // 2)):
            p = sample_point(ctx.rng, m)
            coords = dict(zip("txyz", p))
            env, extras = {}, {"hyp2f1": lambda a, b, c, w: float(sc.hyp2f1(a, b, c, w))}
            try:
                if d0["objparams"]:                      # ICPertFLRW(sol, fd, t, Rc)
                    sol = mod(ctx.rng.choice(("EdS", "LCDM")))
                    Rc = np.full((1, 1, 1), ctx.rng.uniform(-0.1, 0.1))
                    fd = FDStub(ctx.rng, Rc)
                    res = f(sol, fd, coords["t"], Rc)
                    env = {"t": coords["t"], "Rc": float(Rc[0, 0, 0])}
                    for nm in ("a", "fL", "Omega_m", "Hprop"):
                        extras["sol_" + nm] = (lambda g: (lambda t: float(g(t))))(getattr(sol, nm))
                    for nm, a in fd.cache.items():
                        extras[nm] = float(a[0, 0, 0])
                    subs = None
                else:
                    args, subs = [], ({} if flag else None)
                    for pn in d0["pyparams"]:
                        if pn in d0["expanded"]:
                            vals = [ctx.rng.uniform(0.5, 2.0) for _ in d0["expanded"][pn]]
                            env.update(zip(d0["expanded"][pn], vals))
                            args.append(tuple(vals))
                            continue
                        if (m, pn) in SCALAR_RANGES:
                            v = ctx.rng.uniform(*SCALAR_RANGES[(m, pn)])
                        elif pn in coords:
                            v = coords[pn]
                        else:
                            raise RuntimeError("no sampling rule for parameter %s of %s.%s" % (pn, m, py))
                        env[pn] = v
                        if flag:
                            sym = sp.Symbol(pn, real=True)
                            subs[sym] = v
                            args.append(sym)
                        else:
                            args.append(np.full((1, 1, 1), v) if pn in "xyz" and (m, pn) not in SCALAR_RANGES else v)
                    res = f(*args, analytical=True) if flag else f(*args)
            except Exception as ex:  # noqa
                bad.append("%s.%s(analytical=%s) raised %r at %s" % (m, py, flag, ex, p))
                break
            for d in ds:
                try:
                    got = to_float(pick(res, d["comp"]) if d["comp"] else res, subs)
                    exp = S.evaluate(d["body"], env, defs, extras)
                except Exception as ex:  # noqa
                    bad.append("%s.%s: evaluation failed: %r" % (m, d["name"], ex))
                    continue
                e = rel_err(got, exp)
                ncmp += 1
                worst = max(worst, e)
                if e > 1e-12:
                    bad.append("%s.%s at %s: real code %.17g, generated expression %.17g (rel %.2e)"
                               % (m, d["name"], {k: round(v, 6) for k, v in env.items()}, got, exp, e))
    ctx.cov["translation_validation"] = {"definitions": sum(len(v) for v in groups.values()),
                                         "functions": len(groups), "comparisons": ncmp,
                                         "points_per_function": npts, "worst_rel_err": worst}
    return bad


# ------------------------------------------------------ independent oracles
SYMBOLIC = ("LCDM", "Conformally_flat", "Schwarzschild_isotropic", "Harvey_Tsoubelis", "Collins_Stewart",
            "Non_diagonal", "Rosquist_Jantzen", "Szekeres")
ALL_METRIC = ("EdS",) + SYMBOLIC
FLAGGED = {"LCDM": ("a", "gammadown3"), "Conformally_flat": ("gammadown3", "gdown4"),
           "Schwarzschild_isotropic": ("alpha", "gammadown3", "gdown4"),
           "Harvey_Tsoubelis": ("gammadown3", "gdown4"), "Collins_Stewart": ("gammadown3", "gdown4"),
           "Non_diagonal": ("A", "gammadown3", "gdown4"), "Rosquist_Jantzen": ("gammadown3", "gdown4"),
           "Szekeres": ("Z_terms", "gammadown3", "gdown4")}


def _hyper_np(ap, bq, w):
    import scipy.special as sc
    return sc.hyp2f1(ap[0], ap[1], bq[0], w)


class Sym:
    """Per-run cache of the symbolic objects of one module (nothing is kept across runs)."""
    cache = {}

    def __init__(self, m):
        import sympy as sp
        self.m, self.M = m, mod(m)
        self.X = sp.symbols("t x y z", real=True)
        t, x, y, z = self.X
        M = self.M
        if m == "EdS":      # no analytical branch: -dt^2 + a(t)^2 delta_ij from the module's own a(t)
            self.gamma = sp.eye(3) * M.a(t) ** 2
            self.alpha = sp.Integer(1)
            self.g4 = sp.diag(-1, *[M.a(t) ** 2] * 3)
        elif m == "LCDM":
            self.gamma = M.gammadown3(t, x, y, z, analytical=True)
            self.alpha = sp.Integer(1)
            self.g4 = sp.diag(-1, self.gamma)
        else:
            self.gamma = M.gammadown3(t, x, y, z, analytical=True)
            self.g4 = M.gdown4(t, x, y, z, analytical=True)
            if m == "Schwarzschild_isotropic":
                self.alpha = M.alpha(t, x, y, z, analytical=True)
            elif m == "Conformally_flat":
                self.alpha = M.Omega(x)
            else:
                self.alpha = sp.Integer(1)
        self._f = {}

    @classmethod
    def get(cls, m):
        if m not in cls.cache:
            cls.cache[m] = cls(m)
        return cls.cache[m]

    def lam(self, key, exprs):
        import sympy as sp
        if key not in self._f:
            self._f[key] = sp.lambdify(self.X, exprs, modules=[{"hyper": _hyper_np}, "numpy"], cse=True)
        return self._f[key]

    def dtgamma(self, p):
        import sympy as sp
        f = self.lam("dtgamma", [sp.diff(self.gamma[i, j], self.X[0]) for i in range(3) for j in range(3)])
        return np.array(f(*p), dtype=float).reshape(3, 3)

    def jets(self, p):
        """g_ab, d_c g_ab, d_c d_d g_ab of the symbolic 4-metric at p: exact sympy derivatives,
        evaluated with mpmath at 40 digits (the Einstein tensor of Szekeres cancels to 1e-4 of its
        terms, so float64 would leave only a few digits)."""
        import mpmath as mp
        import sympy as sp
        idx = [(a, b) for a in range(4) for b in range(a, 4)]
        if "jets" not in self._f:
            ex = [self.g4[a, b] for a, b in idx]
            d1 = {(c, a, b): sp.diff(self.g4[a, b], self.X[c]) for c in range(4) for a, b in idx}
            ex += [d1[(c, a, b)] for c in range(4) for a, b in idx]
            ex += [sp.diff(d1[(c, a, b)], self.X[d]) for c in range(4) for d in range(c, 4) for a, b in idx]
            self._f["jets"] = sp.lambdify(self.X, ex, modules="mpmath", cse=True)
        mp.mp.dps = 40
        v = [mp.mpf(u) for u in self._f["jets"](*[mp.mpf(float(q)) for q in p])]
        z = mp.mpf(0)
        g = [[z] * 4 for _ in range(4)]
        dg = [[[z] * 4 for _ in range(4)] for _ in range(4)]
        ddg = [[[[z] * 4 for _ in range(4)] for _ in range(4)] for _ in range(4)]
        k = 0
        for a, b in idx:
            g[a][b] = g[b][a] = v[k]
            k += 1
        for c in range(4):
            for a, b in idx:
                dg[c][a][b] = dg[c][b][a] = v[k]
                k += 1
        for c in range(4):
            for d in range(c, 4):
                for a, b in idx:
                    ddg[c][d][a][b] = ddg[c][d][b][a] = ddg[d][c][a][b] = ddg[d][c][b][a] = v[k]
                    k += 1
        return g, dg, ddg


def curvature(g, dg, ddg):
    """Textbook Levi-Civita curvature from the 2-jet of the metric at one point, in mpmath
    arithmetic (plain loops).  dg[c][a][b] = d_c g_ab.  Returns (G_ab, Kretschmann scalar,
    noise_ab) with G = Ric - R g / 2, signature (-+++), R^a_bcd = d_c Gam^a_db - ...; noise_ab
    is the sum of the absolute values of the terms added up in G_ab."""
    import mpmath as mp
    R4 = range(4)
    gi = mp.matrix(g) ** -1
    gi = [[gi[a, b] for b in R4] for a in R4]
    Gl = [[[(dg[b][d][c] + dg[c][d][b] - dg[d][b][c]) / 2 for c in R4] for b in R4] for d in R4]     # Gamma_{d bc}
    Gam = [[[sum(gi[a][d] * Gl[d][b][c] for d in R4) for c in R4] for b in R4] for a in R4]
    dgi = [[[-sum(gi[a][i] * dg[e][i][j] * gi[j][d] for i in R4 for j in R4) for d in R4] for a in R4] for e in R4]
    dGl = [[[[(ddg[e][b][d][c] + ddg[e][c][d][b] - ddg[e][d][b][c]) / 2 for c in R4] for b in R4] for d in R4] for e in R4]
    dGam = [[[[sum(dgi[e][a][d] * Gl[d][b][c] + gi[a][d] * dGl[e][d][b][c] for d in R4)
               for c in R4] for b in R4] for a in R4] for e in R4]
    Riem = [[[[dGam[c][a][d][b] - dGam[d][a][c][b]
               + sum(Gam[a][c][e] * Gam[e][d][b] - Gam[a][d][e] * Gam[e][c][b] for e in R4)
               for d in R4] for c in R4] for b in R4] for a in R4]
    Ric = [[sum(Riem[a][b][a][d] for a in R4) for d in R4] for b in R4]
    R = sum(gi[b][d] * Ric[b][d] for b in R4 for d in R4)
    G = [[Ric[a][b] - R * g[a][b] / 2 for b in R4] for a in R4]
    Rl = [[[[sum(g[a][e] * Riem[e][b][c][d] for e in R4) for d in R4] for c in R4] for b in R4] for a in R4]
    # R^{ab}_{cd} R^{cd}_{ab}
    Rm = [[[[sum(gi[b][f] * Riem[a][f][c][d] for f in R4) for d in R4] for c in R4] for b in R4] for a in R4]
    kr = sum(Rm[a][b][c][d] * Rm[c][d][a][b] for a in R4 for b in R4 for c in R4 for d in R4)
    # size of the terms that are added up in G_ab (scale of the round-off / constant-rounding noise)
    mag = [[sum(abs(dGam[a][a][d][b]) + abs(dGam[d][a][a][b])
                + sum(abs(Gam[a][a][e] * Gam[e][d][b]) + abs(Gam[a][d][e] * Gam[e][a][b]) for e in R4)
                for a in R4) for d in R4] for b in R4]
    magR = sum(abs(gi[b][d]) * mag[b][d] for b in R4 for d in R4)
    noise = [[float(mag[a][b] + magR * abs(g[a][b]) / 2) for b in R4] for a in R4]
    return G, kr, noise


def matter(m, p):
    """(kappa*T_ab, Lambda) from the module's own matter functions at p."""
    M = mod(m)
    t, x, y, z = grid_point(p)
    kappa = getattr(M, "kappa", None)
    Lam = 0.0
    if m in ("Non_diagonal", "Rosquist_Jantzen", "Conformally_flat", "Schwarzschild_isotropic", "Harvey_Tsoubelis"):
        T = np.asarray(M.Tdown4(t, x, y, z), dtype=float)[:, :, 0, 0, 0]
        kappa = 8 * np.pi if kappa is None else kappa
        return kappa * T, Lam
    if m == "Collins_Stewart":
        rho, pr = M.rho(t, x, y, z), M.press(t, x, y, z)
    elif m == "Szekeres":
        rho, pr = M.rho(t, x, y, z), M.press(t, x, y, z)
        kappa, Lam = mod("LCDM").kappa, mod("LCDM").Lambda
    elif m == "LCDM":
        rho, pr, Lam = M.rho(t), 0.0, M.Lambda
    elif m == "EdS":
        rho, pr, Lam = M.rho(t), M.press(t), M.Lambda
    else:
        raise RuntimeError(m)
    rho, pr = float(np.asarray(rho).reshape(-1)[0]), float(np.asarray(pr).reshape(-1)[0])
    gam = np.asarray(M.gammadown3(t, x, y, z), dtype=float)[:, :, 0, 0, 0]
    T = np.zeros((4, 4))
    T[0, 0] = rho                       # comoving fluid, u_a = (-1, 0, 0, 0), zero shift, lapse 1
    T[1:, 1:] = pr * gam
    return kappa * T, Lam


def oracle_einstein(m, p):
    """(c) G_ab + Lambda g_ab = kappa T_ab at p; list of failing components.  Tolerance (float64 round-off of
    the module's matter functions; the left-hand side is evaluated with 40 digits): 1e-12 of the larger side plus
    3e-14 of the sum of |terms| added up in the left-hand side (measured worst case 7e-16 of that sum)."""
    g, dg, ddg = Sym.get(m).jets(p)
    G, _, noise = curvature(g, dg, ddg)
    kT, Lam = matter(m, p)
    out = []
    for a in range(4):
        for b in range(a, 4):
            lhs = float(G[a][b] + Lam * g[a][b])
            inter = noise[a][b] + abs(float(Lam * g[a][b]))
            tol = 1e-12 * max(abs(lhs), abs(kT[a, b])) + 3e-14 * inter
            if not abs(lhs - kT[a, b]) <= tol:
                out.append({"oracle": "einstein", "module": m, "component": [a, b], "point": list(p),
                            "expected": lhs, "observed": float(kT[a, b]),
                            "what": "%s: (G + Lambda g)_%d%d = %.10g from the symbolic 4-metric, kappa*T_%d%d = %.10g from the module's matter functions"
                                    % (m, a, b, lhs, a, b, kT[a, b])})
    return out


def numeric_alpha(m, p):
    M = mod(m)
    t, x, y, z = grid_point(p)
    if hasattr(M, "alpha"):
        return float(np.asarray(M.alpha(t, x, y, z)).reshape(-1)[0])
    g00 = float(np.asarray(M.gdown4(t, x, y, z))[0, 0].reshape(-1)[0])
    return math.sqrt(-g00)


def oracle_K(m, p):
    """(b) K_ij = -(1/(2 alpha)) d_t gamma_ij (all modules have zero shift, checked here too)."""
    M = mod(m)
    t, x, y, z = grid_point(p)
    out = []
    K = np.asarray(M.Kdown3(t, x, y, z), dtype=float)[:, :, 0, 0, 0]
    al = numeric_alpha(m, p)
    if hasattr(M, "betaup3") and np.any(np.asarray(M.betaup3(t, x, y, z)) != 0):
        out.append({"oracle": "K", "module": m, "component": [-1, -1], "point": list(p), "expected": 0.0,
                    "observed": 1.0, "what": "%s: non-zero shift; the oracle assumes zero shift" % m})
    if hasattr(M, "gdown4") and any(float(np.asarray(M.gdown4(t, x, y, z))[0, i].reshape(-1)[0]) != 0 for i in (1, 2, 3)):
        out.append({"oracle": "K", "module": m, "component": [-1, -1], "point": list(p), "expected": 0.0,
                    "observed": 1.0, "what": "%s: g_0i != 0; the oracle assumes zero shift" % m})
    if m == "EdS":
        dtg, est = richardson(lambda s: np.asarray(M.gammadown3(s, x, y, z), dtype=float)[:, :, 0, 0, 0], t)
        rt = 1e-6
    else:
        dtg, est, rt = Sym.get(m).dtgamma(p), 0.0, 1e-9
    gam = np.asarray(M.gammadown3(t, x, y, z), dtype=float)[:, :, 0, 0, 0]
    for i in range(3):
        for j in range(3):
            exp = -dtg[i, j] / (2 * al)
            tol = rt * max(abs(exp), abs(K[i, j])) + 1e-13 * abs(gam[i, j]) / abs(t) + 10 * np.max(est)
            if not abs(exp - K[i, j]) <= tol:
                out.append({"oracle": "K", "module": m, "component": [i, j], "point": list(p),
                            "expected": float(exp), "observed": float(K[i, j]),
                            "what": "%s: Kdown3[%d,%d] = %.12g but -(1/(2 alpha)) d_t gammadown3[%d,%d] = %.12g"
                                    % (m, i, j, K[i, j], i, j, exp)})
    return out


def richardson(f, t):
    """Central difference in t with one Richardson step; returns (derivative, error estimate)."""
    def rich(h):
        d1 = (f(t + h) - f(t - h)) / (2 * h)
        d2 = (f(t + h / 2) - f(t - h / 2)) / h
        return (4 * d2 - d1) / 3
    h = 2e-3 * abs(t)
    r1, r2 = rich(h), rich(h / 2)
    return r2, np.abs(r1 - r2)


def oracle_K_icpert(rng, p):
    """(b) for ICPertFLRW on the EdS background (first-order quantities are linear in the second
    derivatives of Rc, so the relation is exact there); plus the unperturbed limit for EdS and LCDM."""
    M = mod("ICPertFLRW")
    out = []
    t = p[0]
    Rc = np.full((1, 1, 1), rng.uniform(-0.1, 0.1))
    fd = FDStub(rng, Rc)
    sol = mod("EdS")
    K = np.asarray(M.Kdown3(sol, fd, t, Rc), dtype=float)[:, :, 0, 0, 0]
    dtg, est = richardson(lambda s: np.asarray(M.gammadown3(sol, fd, s, Rc), dtype=float)[:, :, 0, 0, 0], t)
    for i in range(3):
        for j in range(3):
            exp = -dtg[i, j] / 2
            if not abs(exp - K[i, j]) <= 1e-6 * max(abs(exp), abs(K[i, j])) + 10 * np.max(est):
                out.append({"oracle": "K_icpert", "module": "ICPertFLRW", "component": [i, j], "point": list(p),
                            "expected": float(exp), "observed": float(K[i, j]),
                            "what": "ICPertFLRW(EdS): Kdown3[%d,%d] = %.12g but -(1/2) d_t gammadown3 = %.12g" % (i, j, K[i, j], exp)})
    zero = np.zeros((1, 1, 1))

    class Z:
        d3x = d3y = d3z = staticmethod(lambda f: np.zeros(np.shape(f)))
    x = np.full((1, 1, 1), p[1])
    for sname in ("EdS", "LCDM"):
        sol = mod(sname)
        for fn in ("gammadown3", "Kdown3"):
            a = np.asarray(getattr(M, fn)(sol, Z, t, zero), dtype=float)[:, :, 0, 0, 0]
            b = np.asarray(getattr(sol, fn)(t, x, x, x), dtype=float)[:, :, 0, 0, 0]
            if not np.allclose(a, b, rtol=1e-12, atol=0):
                out.append({"oracle": "K_icpert", "module": "ICPertFLRW", "component": [fn, sname], "point": list(p),
                            "expected": b.tolist(), "observed": a.tolist(),
                            "what": "ICPertFLRW.%s with Rc = 0 differs from %s.%s" % (fn, sname, fn)})
    return out


def oracle_numsym(m, p):
    """(a) numeric branch vs symbolic branch of every function with an `analytical` flag."""
    import sympy as sp
    M = mod(m)
    out = []
    t, x, y, z = grid_point(p)
    syms = sp.symbols("t x y z", real=True)
    subs = dict(zip(syms, p))
    for fn in FLAGGED.get(m, ()):
        f = getattr(M, fn)
        if fn == "a":
            num, sym = f(p[0]), f(syms[0], analytical=True)
        elif fn == "A":
            num, sym = f(z), f(syms[3], analytical=True)
        else:
            num, sym = f(t, x, y, z), f(*syms, analytical=True)
        if isinstance(sym, tuple):
            pairs = [((k,), num[k], sym[k]) for k in range(len(sym))]
        elif isinstance(sym, sp.MatrixBase):
            pairs = [((i, j), np.asarray(num)[i, j], sym[i, j]) for i in range(sym.shape[0]) for j in range(sym.shape[1])]
        else:
            pairs = [((), num, sym)]
        for comp, nv, sv in pairs:
            a, b = to_float(nv), to_float(sv, subs)
            if rel_err(a, b) > 1e-10:
                out.append({"oracle": "numsym", "module": m, "component": [fn] + list(comp), "point": list(p),
                            "expected": b, "observed": a,
                            "what": "%s.%s%s: analytical=False gives %.15g, analytical=True gives %.15g" % (m, fn, list(comp), a, b)})
    return out


def oracle_kretschmann(p):
    """(d) Schwarzschild: closed-form Kretschmann scalar vs the curvature of the symbolic metric."""
    M = mod("Schwarzschild_isotropic")
    g, dg, ddg = Sym.get("Schwarzschild_isotropic").jets(p)
    kr = float(curvature(g, dg, ddg)[1])
    t, x, y, z = grid_point(p)
    got = float(np.asarray(M.Kretschmann(t, x, y, z)).reshape(-1)[0])
    if rel_err(got, kr) > 1e-12:
        return [{"oracle": "kretschmann", "module": "Schwarzschild_isotropic", "component": [], "point": list(p),
                 "expected": kr, "observed": got,
                 "what": "Schwarzschild Kretschmann closed form %.12g, R_abcd R^abcd of the metric %.12g" % (got, kr)}]
    return []


def oracle_hyp_identity(tau):
    """(e) d/dtau [(3/5) sinh^(5/3) 2F1(5/6,3/2;11/6;-sinh^2)] = sinh^(2/3)/cosh^2 (hypothesis of the zz theorem)."""
    import mpmath as mp
    mp.mp.dps = 30
    ip = lambda u: mp.mpf(3) / 5 * mp.sqrt(mp.cosh(u) ** 2) * mp.hyp2f1(mp.mpf(5) / 6, mp.mpf(3) / 2, mp.mpf(11) / 6, -mp.sinh(u) ** 2) \
        * mp.sinh(u) ** (mp.mpf(5) / 3) / mp.cosh(u)
    d = mp.diff(ip, tau)
    e = mp.sinh(tau) ** (mp.mpf(2) / 3) / mp.cosh(tau) ** 2
    return float(abs(d - e) / abs(e))


def oracle_hyp_continuation(tau):
    """(e') the function the Lean theorems use in place of scipy's hyp2f1 on x = -sinh^2(tau) <= 0,
    gaussHypNeg(5/6,3/2,11/6,x) = (1-x)^(-3/2) * sum_n (3/2)_n/(11/6)_n w^n, w = x/(x-1) (Pfaff's form, summed term by
    term exactly as Mathlib's ordinaryHypergeometric 1 (3/2) (11/6) w is defined), against mpmath's hyp2f1 (analytic
    continuation) at 30 digits, and the real code's scipy.special.hyp2f1 against mpmath.  Returns (rel. diff Pfaff,
    rel. diff scipy)."""
    import mpmath as mp
    import scipy.special as sc
    mp.mp.dps = 30
    x = -mp.sinh(tau) ** 2
    w = x / (x - 1)
    term, tot, n = mp.mpf(1), mp.mpf(0), 0
    while abs(term) > mp.mpf(10) ** (-32) and n < 200000:
        tot += term
        term *= (mp.mpf(3) / 2 + n) / (mp.mpf(11) / 6 + n) * w
        n += 1
    pf = (1 - x) ** (-mp.mpf(3) / 2) * tot
    ref = mp.hyp2f1(mp.mpf(5) / 6, mp.mpf(3) / 2, mp.mpf(11) / 6, x)
    real = sc.hyp2f1(5 / 6, 3 / 2, 11 / 6, float(x))
    return float(abs(pf - ref) / abs(ref)), float(abs(mp.mpf(float(real)) - ref) / abs(ref))


ORACLES = {"einstein": oracle_einstein, "K": oracle_K, "numsym": oracle_numsym}


# ------------------------------------------------------------------ proving
def prove(ctx):
    """Build Props/C17 and audit axioms.  If the build fails (e.g. a generated definition
    changed or is missing), elaborate Gen + Lemmas + Props as ONE scratch file: Lean keeps going
    after an error, so `#print axioms` at the end tells, per theorem, whether it still stands
    (a theorem that is broken or rests on a broken lemma shows `sorryAx` or is unknown)."""
    ok, errs, out = ctx.lean_build([MODULE])
    if ok:
        ax = ctx.audit(MODULE, THEOREMS)
        for t in THEOREMS:
            a = ax.get(t)
            if a is None:
                ctx.obligation(t, False, "theorem not found by #print axioms")
            elif not set(a) <= fw.STD_AXIOMS:
                ctx.obligation(t, False, "non-standard axioms: %s" % sorted(set(a) - fw.STD_AXIOMS))
            else:
                ctx.obligation(t, True, "axioms: " + (", ".join(sorted(a)) or "none"))
        return True
    ctx.log("build failed; per-theorem attribution from a single-file elaboration")
    imports, body = [], []
    for rp in ("AurelVerif/Gen/Solutions.lean", "AurelVerif/Lemmas/Solutions.lean", "AurelVerif/Props/C17.lean"):
        txt = fw.strip_lean_comments(open(os.path.join(fw.LEAN, rp)).read())
        for line in txt.split("\n"):
            if line.startswith("import "):
                if not line.startswith("import AurelVerif") and line not in imports:
                    imports.append(line)
            else:
                body.append(line)
    os.makedirs(os.path.join(fw.LEAN, ".audit"), exist_ok=True)
    fn = os.path.join(fw.LEAN, ".audit", "C17_single_%d.lean" % os.getpid())
    lines = imports + body + ["#print axioms %s" % t for t in THEOREMS]
    with open(fn, "w") as f:
        f.write("\n".join(lines) + "\n")
    try:
        p = subprocess.run(["timeout", "1200", "lake", "env", "lean", fn], cwd=fw.LEAN, capture_output=True, text=True)
    finally:
        os.unlink(fn)
    ctx.checker_cmds.append("lake env lean <Gen+Lemmas+Props in one file, #print axioms per theorem>")
    txt = p.stdout + p.stderr
    res = {}
    for mm in re.finditer(r"'([^']+)' depends on axioms: \[([^\]]*)\]", txt):
        res[mm.group(1)] = [a.strip() for a in mm.group(2).replace("\n", " ").split(",") if a.strip()]
    for mm in re.finditer(r"'([^']+)' does not depend on any axioms", txt):
        res[mm.group(1)] = []
    bad_decls = {}
    for mm in re.finditer(r":(\d+):\d+: error[^:]*: (.*)", txt):
        ln = int(mm.group(1))
        name = None
        for i in range(min(ln, len(lines)) - 1, -1, -1):
            m2 = re.match(r"\s*(?:noncomputable )?(theorem|lemma|def|example)\s+([^\s:({\[]+)?", lines[i])
            if m2:
                name = m2.group(2) or "example"
                break
        bad_decls.setdefault(name or "?", mm.group(2)[:160])
    summary = "; ".join("%s: %s" % kv for kv in list(bad_decls.items())[:6])
    for t in THEOREMS:
        a = res.get(t)
        if a is not None and set(a) <= fw.STD_AXIOMS:
            ctx.obligation(t, True, "stands in single-file elaboration; axioms: " + ", ".join(sorted(a)))
        elif a is None:
            ctx.obligation(t, False, "does not elaborate any more. Errors: " + summary)
        else:
            ctx.obligation(t, False, "rests on a broken proof (%s). Errors: %s" % (sorted(set(a) - fw.STD_AXIOMS), summary))
    ctx.notes.append("lake build failed; errors in declarations: " + ", ".join(map(str, bad_decls)))
    return False


def prove_einstein(ctx):
    """Build Props/C17Einstein and audit axioms.  If it does not build (e.g. the generated matter of ONE module
    changed), build the per-module lemma files separately and attribute: a property theorem whose own lemma module
    still builds, with standard axioms for the lemmas it is assembled from, stands; the others are broken."""
    ok, first_errs, _ = ctx.lean_build([MODULE_EINSTEIN], timeout=3000)
    if ok or not any(f != "AurelVerif/Props/C17Einstein.lean" for f in first_errs):
        # builds (the second build inside ctx.prove is a no-op), or the error is in the Props file itself
        return ctx.prove(MODULE_EINSTEIN, THEOREMS_EINSTEIN, timeout=3000)
    status = {}
    for fam in sorted({v[0] for v in EINSTEIN_PARTS.values()}):
        mod = "AurelVerif.Lemmas.C17Ein" + fam
        ok, errs, _ = ctx.lean_build([mod], timeout=3000)
        msg = "; ".join("%s:%d %s %s" % (f, ln, ctx.decl_at(f, ln) or "", m[:120]) for f, l in errs.items() for ln, m in l[:2])
        status[fam] = (ok, msg)
    for t in THEOREMS_EINSTEIN:
        fam, lemmas = EINSTEIN_PARTS[t.split(".")[-1]]
        ok, msg = status[fam]
        if not ok:
            ctx.obligation(t, False, "Lemmas/C17Ein%s.lean does not build any more: %s" % (fam, msg))
            continue
        names = ["AurelVerif.C17Ein." + l for l in lemmas]
        ax = ctx.audit("AurelVerif.Lemmas.C17Ein" + fam, names)
        bad = [n for n in names if ax.get(n) is None or not set(ax[n]) <= fw.STD_AXIOMS]
        ctx.obligation(t, not bad, ("its lemmas %s still build in Lemmas/C17Ein%s.lean with standard axioms "
                                    "(Props/C17Einstein.lean as a whole does not build because of another module)" % (", ".join(lemmas), fam))
                       if not bad else "lemmas missing or with non-standard axioms: %s" % bad)
    ctx.notes.append("Props/C17Einstein did not build; per-module attribution: " +
                     ", ".join("%s=%s" % (k, "ok" if v[0] else "BROKEN") for k, v in sorted(status.items())))
    return False


# ----------------------------------------------------------------- sentinel
def run_oracles(ctx, rng, n):
    """All oracles at n fresh points per module; returns the list of failure dicts."""
    fails = []
    for m in ALL_METRIC:
        for _ in range(n):
            p = sample_point(rng, m)
            for name, f in ORACLES.items():
                try:
                    fails += f(m, p)
                except Exception as ex:  # noqa
                    fails.append({"oracle": name, "module": m, "component": ["exception"], "point": list(p),
                                  "expected": None, "observed": repr(ex),
                                  "what": "%s: oracle %s could not be evaluated: %r" % (m, name, ex)})
                ctx.count("oracle_evaluations")
            if m == "Schwarzschild_isotropic":
                fails += oracle_kretschmann(p)
    for _ in range(max(1, n // 2)):
        fails += oracle_K_icpert(rng, sample_point(rng, "ICPertFLRW"))
        fails += oracle_icpert_constraints(rng, sample_point(rng, "ICPertFLRW"))
    return fails


def key_of(f):
    return (f["oracle"], f["module"], ",".join(map(str, f["component"])))


def sentinel(ctx, n):
    """Report a failure only if the same (oracle, module, component) fails again at a second,
    independent point set (all oracles are tolerance bands)."""
    first = run_oracles(ctx, ctx.rng, n)
    found = 0
    if first:
        second = {}
        for f in run_oracles(ctx, ctx.rng, n):
            second.setdefault(key_of(f), f)
        seen = set()
        for f in first:
            k = key_of(f)
            if k in second and k not in seen:
                seen.add(k)
                found += bool(ctx.violation(
                    f["what"],
                    {"kind": "input", "oracle": f["oracle"], "module": f["module"], "component": f["component"],
                     "point": f["point"], "point2": second[k]["point"], "expected": f["expected"], "observed": f["observed"]},
                    {"oracle": f["oracle"], "module": f["module"], "component": k[2]}))
        ctx.notes.append("%d band failure(s) at the first point set, %d reproduced at the second" % (len(first), len(seen)))
    worst = max(oracle_hyp_identity(ctx.rng.uniform(0.05, 3.0)) for _ in range(max(2, n)))
    ctx.cov["hypergeometric_identity_worst_rel_residual"] = worst
    if worst > 1e-20:
        found += bool(ctx.violation("the antiderivative assumed for Szekeres.integrated_part fails numerically (rel %.2e)" % worst,
                                    {"kind": "input", "oracle": "hyp_identity", "module": "Szekeres", "component": [], "point": []},
                                    {"oracle": "hyp_identity", "module": "Szekeres"}))
    cont = [oracle_hyp_continuation(ctx.rng.uniform(0.05, 3.0)) for _ in range(max(2, n))]
    wp, wsc = max(c[0] for c in cont), max(c[1] for c in cont)
    ctx.cov["hypergeometric_pfaff_continuation_worst_rel_diff_vs_mpmath"] = wp
    ctx.cov["scipy_hyp2f1_worst_rel_diff_vs_mpmath"] = wsc
    if wp > 1e-20 or wsc > 1e-10:
        found += bool(ctx.violation("the function proven to be the antiderivative (Pfaff continuation of 2F1(5/6,3/2;11/6;-sinh^2)) "
                                    "differs from mpmath's hyp2f1 (rel %.2e) or scipy.special.hyp2f1 differs from mpmath (rel %.2e)" % (wp, wsc),
                                    {"kind": "input", "oracle": "hyp_continuation", "module": "Szekeres", "component": [], "point": []},
                                    {"oracle": "hyp_continuation", "module": "Szekeres"}))
    try:
        ctx.cov["ICPertFLRW_LCDM_growth_relation_rel_residual_today"] = icpert_lcdm_growth_residual()
    except Exception as ex:  # noqa
        ctx.cov["ICPertFLRW_LCDM_growth_relation_rel_residual_today"] = repr(ex)
    ctx.cov["oracle_points_per_module"] = n
    return found


def icpert_lcdm_growth_residual(t=None):
    """Informational (not a violation: the module documents first-order + growth-index approximation): relative residual
    of the growth relation d/dt[1/(F H^2)] = (2+f)/(F H) for sol = LCDM with f = Omega_m^(6/11); by the theorem
    ICPertFLRW_metric_rate this is the relative size of K_ij + (1/2) d_t gamma_ij in its d_i d_j Rc part."""
    import mpmath as mp
    sol = mod("LCDM")
    if t is None:
        t = float(sol.t_func_a(1.0)) if hasattr(sol, "t_func_a") else 1.0 / float(sol.Hprop_today)
    F = lambda s: sol.fL(s) + 1.5 * sol.Omega_m(s)
    g = lambda s: 1.0 / (F(s) * sol.Hprop(s) ** 2)
    h = 1e-4 * t
    d = (g(t - 2 * h) - 8 * g(t - h) + 8 * g(t + h) - g(t + 2 * h)) / (12 * h)
    want = (2 + sol.fL(t)) / (F(t) * sol.Hprop(t))
    return float(abs(d - want) / abs(want))


def run(ctx):
    ctx.trusted += ["Lean 4.33 kernel; Mathlib real analysis; axioms propext, Classical.choice, Quot.sound",
                    "py2lean/solutions.py (AST -> real expressions; validated against the real functions at random points, rel 1e-12)",
                    "grid arrays modelled pointwise over the reals; module constants by their symbolic definitions (float rounding not modelled)",
                    "numpy/sympy/scipy elementary functions denote the Mathlib functions of the same name; hyp2f1 opaque in the generated definitions, instantiated in Props/C17Hyp.lean by Mathlib's ordinaryHypergeometric (Pfaff continuation)"]
    ctx.assumptions += ["Szekeres: the hypergeometric antiderivative is proven (Props/C17Hyp.lean) for Mathlib's Gauss series inside the unit disc and for its Pfaff continuation on the whole negative axis; that scipy.special.hyp2f1 / sympy.hyper denote that function is checked numerically (mpmath, 30 digits); Z != 0",
                        "ICPertFLRW: first order in the formal parameter eps of Rc -> eps Rc (dual numbers); the partial derivatives of Rc are jet symbols (exact derivatives in place of fd.d3x/d3y/d3z); K = -(1/2) d_t gamma for a background satisfying the growth relation (EdS: proven; LCDM: the module's growth-index approximation)",
                        "spacetime curvature is defined algebraically from the 2-jet of the metric (Spec/Jet4.lean, textbook formulas); that the jet entries are the partial derivatives of the generated metric is proven with Mathlib's HasDerivAt, coordinate by coordinate (Spec/MetricJet.lean)"]
    info = None
    try:
        changed, info = S.regen()
        ctx.obligation("py2lean:solutions", not info["failed"],
                       "regenerated %d definitions (changed=%s)%s" % (info["n_defs"], changed,
                       "; UNTRANSLATED: " + "; ".join("%s (%s)" % kv for kv in sorted(info["failed"].items())) if info["failed"] else ""),
                       kind="translation")
        d = info["defs"].get(("Harvey_Tsoubelis", "Kdown3_12"))
        if d:
            ctx.sample({"generated": "Harvey_Tsoubelis.Kdown3_12", "lean": S.lean(d["body"], info["defs"])})
    except Exception as ex:  # noqa
        ctx.obligation("py2lean:solutions", False, "translation failed: %r" % ex, kind="translation")
    prove(ctx)
    prove_einstein(ctx)
    ctx.prove(MODULE_HYP, THEOREMS_HYP, timeout=3000)
    ctx.prove(MODULE_PERT, THEOREMS_PERT, timeout=3000)
    ctx.forbidden_scan(LEAN_FILES)
    if ctx.tier == "thorough" and not ctx.broken():
        ctx.leanchecker([MODULE, MODULE_EINSTEIN, MODULE_HYP, MODULE_PERT])
    if info is not None:
        try:
            bad = validate_translation(ctx, info, ctx.budget(4, 40))
            ctx.obligation("translation validation: generated expressions vs real functions (%d comparisons)"
                           % ctx.cov["translation_validation"]["comparisons"], not bad, "; ".join(bad[:6]),
                           kind="correspondence")
        except Exception as ex:  # noqa
            ctx.obligation("translation validation", False, repr(ex), kind="correspondence")
    sentinel(ctx, ctx.budget(3, 25) + (7 if ctx.broken() else 0))


def replay(ctx, obj):
    if obj.get("kind") == "unproved":
        print("replay: re-running the check for the unproved obligation")
        run(ctx)
        return 1 if ctx.broken() else 0
    o, m = obj.get("oracle"), obj.get("module")
    if o == "hyp_identity":
        w = oracle_hyp_identity(0.7)
        print("replay: residual", w)
        return 1 if w > 1e-20 else 0
    if o == "hyp_continuation":
        w = [oracle_hyp_continuation(u) for u in (0.3, 0.9, 2.0)]
        print("replay: (Pfaff vs mpmath, scipy vs mpmath)", w)
        return 1 if max(c[0] for c in w) > 1e-20 or max(c[1] for c in w) > 1e-10 else 0
    n = 0
    for p in (obj.get("point"), obj.get("point2")):
        if not p:
            continue
        if o in ORACLES:
            fs = ORACLES[o](m, p)
        elif o == "kretschmann":
            fs = oracle_kretschmann(p)
        elif o == "icpert_constraints":
            fs = []
            for _ in range(3):
                fs = fs or oracle_icpert_constraints(ctx.rng, p)
        else:
            fs = oracle_K_icpert(ctx.rng, p)
        fs = [f for f in fs if f["component"] == obj.get("component")]
        for f in fs:
            print("replay:", f["what"], "at", p)
        n += len(fs)
    print("replay: %d failure(s) now" % n)
    return 1 if n else 0


MANIFEST = {
    "category": "proof",
    "technique": "Lean 4 / Mathlib theorems (HasDerivAt, real powers, sinh/cosh/exp/log) about real-valued expressions regenerated on every run from the ASTs of solutions/*.py; Einstein tensor defined algebraically from the 2-jet of a metric over any field (Spec/Jet4.lean) and evaluated per metric family by staged, Lean-proven closed-form tables (Christoffel, dGamma, Ricci, Einstein, Riemann/Kretschmann), the jets tied to the generated metrics by HasDerivAt; translation validated against the real functions; independent sympy/mpmath sentinel on the real code",
    "text": "Partial proof. Proven for all t > 0 and all positions (about definitions regenerated from the source each run): (T1) the numpy and sympy branches of every `analytical=` function (metric, lapse, a(t), A, Z_terms) denote the same function, for all 8 modules that have the flag; (T2) Kdown3 is the time-rate of gammadown3, d_t gamma_ij = -2 alpha K_ij, all nine components, for EdS and LCDM (including H = a'/a from the modules' own a(t), Hprop(t) and symbolically related constants), Conformally_flat, Schwarzschild_isotropic (static), Harvey_Tsoubelis, Collins_Stewart, Non_diagonal, Rosquist_Jantzen, Szekeres (eight components unconditionally; zz under the explicit hypothesis that integrated_part is an antiderivative of part_to_integrate, and Z != 0), ICPertFLRW on the EdS background for arbitrary second derivatives of Rc plus its unperturbed limit; lapse and zero shift read off each module's own gdown4; (T3) EINSTEIN'S EQUATIONS G_ab + Lambda g_ab = kappa T_ab, all ten components at every point of the domain, with G the textbook Einstein tensor computed from a 2-jet of the metric whose entries are PROVEN to be the first and second partial derivatives (Mathlib HasDerivAt) of the module's own generated metric: EdS, LCDM (perfect fluid at rest with the module's rho, press, Lambda), Conformally_flat (Tdown4), Schwarzschild_isotropic (vacuum, r != 0, 2r != M; plus: the shipped Kretschmann closed form IS the Kretschmann scalar of the metric, and null_ray_exp_out IS the divergence of the unit outward normal of the coordinate spheres), Harvey_Tsoubelis (vacuum), Collins_Stewart (rho, press), Rosquist_Jantzen (Tdown4; the module constant k != 0 is proven), Szekeres (rho, press = 0, LCDM's Lambda: the equations at each point unconditionally, the derivative property of the jet under the hypergeometric-antiderivative hypothesis, shown satisfiable), Non_diagonal (Tdown4 exactly as written, t > 0, (A t)^2 != 2; its pressure coefficient is 1/12 since /repo commit 7527532 - with the earlier decimal 0.0833333 the statement was false and had been proven false); also the Friedmann and continuity equations of EdS/LCDM. (T4, Props/C17Hyp.lean) THE HYPERGEOMETRIC ANTIDERIVATIVE IS NOW PROVEN, so the Szekeres statements hold without hypothesis: for Mathlib's Gauss series 2F1 (ordinaryHypergeometric) d/dtau[(3/5) sinh^(5/3) 2F1(5/6,3/2;11/6;-sinh^2)] = sinh^(2/3)/cosh^2 for 0 < tau, sinh^2 tau < 1 (term-wise differentiation of the power series inside the unit disc + Mathlib's binomial series); for its analytic continuation to the whole negative axis in Pfaff's form (1-x)^(-b) 2F1(c-a,b;c;x/(x-1)) (a convergent series for every x <= 0) the same identity for ALL tau > 0; and Pfaff's transformation for the module's parameters (the two functions coincide on -1 < x <= 0) is proven, so the second function IS the continuation of the first, and inside the disc all outputs of the module (Z_terms, gammadown3, Kdown3, rho, gdown4) are the same for both (Szekeres_series_agrees_on_disc). With it: K_is_metric_rate_Szekeres (all nine components), Szekeres_dtZ_is_rate_hyp and einstein_Szekeres (all ten Einstein equations, jet = derivatives of the module's metric) for all t > 0, Z != 0, no hypothesis left. (T5, Props/C17Pert.lean) ICPertFLRW AT FIRST ORDER: with Rc -> eps*Rc and all partial derivatives of Rc up to fourth order as arbitrary jet symbols (exact derivatives in place of fd), the module's generated gammadown3, Kdown3, delta1 are exactly affine in eps, their spatial derivatives are the same formulas on the shifted jets (HasDerivAt), and in the dual numbers R[eps]/(eps^2) the Hamiltonian constraint R + K^2 - K_ij K^ij = 2 kappa rho + 2 Lambda with rho = rho_bg (1 + eps delta1) and the three momentum constraints D_j K^j_i - D_i K = 0 hold (i.e. up to O(eps^2)), with the inverse metric proven to be the inverse, for EVERY background with a, H, F != 0, kappa rho = 3 Omega_m H^2 and Friedmann's equation - instantiated for EdS and for LCDM (with its growth-index approximation) for all t > 0; and d_t gamma_ij = -2 K_ij + 2[(2+f)/(F H) - d/dt(1/(F H^2))] d_i d_j Rc exactly for every background, so K = -(1/2) d_t gamma iff the growth relation d/dt[1/(F H^2)] = (2+f)/(F H) holds, which is proven for EdS (a ~ t^(2/3), f = 1, F = 5/2).",
    "note": "NOT covered by a theorem; numerical sentinel only (sympy derivatives of the module's symbolic 4-metric evaluated with mpmath, textbook curvature, agreement to float64 round-off: 1e-12 of the larger side + 3e-14 of the sum of |terms|, Kretschmann 1e-12; a band failure is reported only if reproduced at a second point set): that scipy.special.hyp2f1 / sympy.hyper compute the function for which the antiderivative identity is proven (the sentinel evaluates, with mpmath at 30 digits on every run: the derivative identity itself, Pfaff's continuation summed term by term as Mathlib defines it against mpmath's hyp2f1 for tau in (0.05, 3), i.e. inside and outside the unit disc, and scipy's hyp2f1 against mpmath); for ICPertFLRW with sol = LCDM the relation K_ij = -(1/2) d_t gamma_ij is NOT exact: it needs the growth relation d/dt[1/(F H^2)] = (2+f)/(F H), which the module's f = Omega_m^(6/11) satisfies only approximately (relative residual of the d_i d_j Rc part 1.1e-2 at a = 1, 5e-4 at a = 0.5, < 1e-7 for a < 0.1; reported in the coverage of every run; stated as the hypothesis of ICPertFLRW_K_is_metric_rate_of_growth); ICPertFLRW beyond first order in eps, and fd derivatives versus exact derivatives (property C07). The sentinel keeps checking all Einstein equations and the Kretschmann scalar on the real code independently of the theorems. Trusted: Lean kernel + propext/Classical.choice/Quot.sound; the translator (validated at random points to 1e-12 on all 628 generated definitions); reals in place of float64 and symbolic module constants (t_today = 2/(3 H0), ...); Python `/` and safe_division both modelled by Lean `/` with the non-vanishing of divisors stated as hypotheses (t > 0, r != 0, Z != 0, ...); the algebraic definition of curvature from a 2-jet (Spec/Jet4.lean: Christoffel symbols, derivative of the inverse metric, product rule, Riemann, Ricci, Einstein; citations there). The tables in Lemmas/C17Jet*.lean were written by the developer tool tools/py2lean/c17_jetgen.py (sympy) and carry no authority: each is proven equal to the Spec definition by Lean.",
}
