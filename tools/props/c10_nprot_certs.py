"""Generator of lean/AurelVerif/Lemmas/C10NPRot.lean (property C10, theorem T11a): finds, by exact linear algebra
(sympy), the linear combinations of the cyclic identity and the trace relations that turn the tetrad components of a
Weyl-like tensor in a null-rotated frame into the textbook polynomials in Psi0..Psi4, and prints them as
`linear_combination` certificates.  NOT part of the trusted base and NOT run by ./check: Lean re-checks every
certificate.  Re-run by hand only if the statement of T11a changes:

    /venv/bin/python tools/props/c10_nprot_certs.py [output.lean]
"""
import itertools
import os
import sys

import sympy as sp

OUT = sys.argv[1] if len(sys.argv) > 1 else os.path.join(os.path.dirname(__file__), "..", "..", "lean", "AurelVerif", "Lemmas",
                                                         "C10NPRot.lean")
b,bb=sp.symbols('b bb')
# tetrad index: 0=l,1=k,2=m,3=mb
def canon(i,j,k,l):
    s=1
    if i==j or k==l: return 0,None
    if i>j: i,j=j,i; s=-s
    if k>l: k,l=l,k; s=-s
    if (i,j)>(k,l): i,j,k,l=k,l,i,j
    return s,(i,j,k,l)
atoms=sorted({canon(*x)[1] for x in itertools.product(range(4),repeat=4) if canon(*x)[1]})
idx={a:n for n,a in enumerate(atoms)}
def vec(poly_dict):
    """poly_dict: {(i,j,k,l): coeff} -> canonical vector (sympy)"""
    v=[0]*len(atoms)
    for key,c in poly_dict.items():
        s,a=canon(*key)
        if a is None: continue
        v[idx[a]]+=s*c
    return [sp.expand(x) for x in v]
def transform(Lam,i,j,k,l):
    d={}
    for p,q,r,s in itertools.product(range(4),repeat=4):
        c=Lam[i][p]*Lam[j][q]*Lam[k][r]*Lam[l][s]
        if c!=0: d[(p,q,r,s)]=d.get((p,q,r,s),0)+c
    return d
def psis(T):  # T: function (i,j,k,l)->dict
    return [T(1,2,1,2),T(1,0,1,2),T(1,2,3,0),T(1,0,3,0),T(0,3,0,3)]
base=lambda i,j,k,l:{(i,j,k,l):1}
P=psis(base)
def comb(terms):
    d={}
    for c,dd in terms:
        for k_,v in dd.items(): d[k_]=d.get(k_,0)+c*v
    return d
# relations
cyc=vec({(0,1,2,3):1,(0,2,3,1):1,(0,3,1,2):1})
trs={}
for x in range(4):
    for y in range(x,4):
        trs[(x,y)]=vec({(0,x,1,y):-1,(1,x,0,y):-1,(2,x,3,y):1,(3,x,2,y):1})
def solve(target_vec):
    # find polynomial coefficients c0, c_xy with target = c0*cyc + sum c_xy*tr_xy ; solve per monomial
    names=['cyc']+list(trs.keys())
    rel=[cyc]+[trs[k_] for k_ in trs]
    M=sp.Matrix([[sp.nsimplify(r[n]) for r in rel] for n in range(len(atoms))])
    monos={}
    for n,t in enumerate(target_vec):
        pt=sp.Poly(t,b,bb)
        for mon,c in pt.terms():
            monos.setdefault(mon,[0]*len(atoms))[n]=c
    res={nm:0 for nm in names}
    for mon,v in monos.items():
        sol=sp.linsolve((M,sp.Matrix(v)))
        if not sol: raise Exception("no solution for %s"%(mon,))
        s0=list(sol)[0]
        s0=[x.subs({sym:0 for sym in x.free_symbols}) for x in s0]
        for nm,x in zip(names,s0):
            res[nm]+=x*b**mon[0]*bb**mon[1]
    return {k_:sp.factor(v) for k_,v in res.items() if v!=0}
def classI():
    # k fixed: k'=k; m'=m+b k; mb'=mb+bb k; l'=l+bb m+b mb+b bb k
    Lam=[[1,b*bb,bb,b],[0,1,0,0],[0,b,1,0],[0,bb,0,1]]
    ab=bb
    tgt=[P[0], comb([(1,P[1]),(ab,P[0])]), comb([(1,P[2]),(2*ab,P[1]),(ab**2,P[0])]),
         comb([(1,P[3]),(3*ab,P[2]),(3*ab**2,P[1]),(ab**3,P[0])]),
         comb([(1,P[4]),(4*ab,P[3]),(6*ab**2,P[2]),(4*ab**3,P[1]),(ab**4,P[0])])]
    return Lam,tgt
def classII():
    # l fixed: l'=l; m'=m+a l; mb'=mb+ab l; k'=k+ab m+a mb+a ab l   (a=b, ab=bb here)
    a,ab=b,bb
    Lam=[[1,0,0,0],[a*ab,1,ab,a],[a,0,1,0],[ab,0,0,1]]
    B=a
    tgt=[comb([(1,P[0]),(4*B,P[1]),(6*B**2,P[2]),(4*B**3,P[3]),(B**4,P[4])]),
         comb([(1,P[1]),(3*B,P[2]),(3*B**2,P[3]),(B**3,P[4])]),
         comb([(1,P[2]),(2*B,P[3]),(B**2,P[4])]),
         comb([(1,P[3]),(B,P[4])]), P[4]]
    return Lam,tgt

pairs=[(0,1),(0,2),(0,3),(1,2),(1,3),(2,3)]
def rules_block(T="T", hS="hS"):
    L=[]
    L.append(f"  have d12 : ∀ i k l, {T} i i k l = 0 := fun i k l => by")
    L.append(f"    have h := {hS}.anti12 i i k l")
    L.append(f"    have h' : (2 : K) * {T} i i k l = 0 := by linear_combination h")
    L.append("    exact (mul_eq_zero.mp h').resolve_left h2")
    L.append(f"  have d34 : ∀ i j k, {T} i j k k = 0 := fun i j k => by")
    L.append(f"    have h := {hS}.anti34 i j k k")
    L.append(f"    have h' : (2 : K) * {T} i j k k = 0 := by linear_combination h")
    L.append("    exact (mul_eq_zero.mp h').resolve_left h2")
    names=[]
    for (i,j) in pairs:
        L.append(f"  have a{j}{i} : ∀ k l, {T} {j} {i} k l = -{T} {i} {j} k l := fun k l => {hS}.anti12 {j} {i} k l")
        L.append(f"  have b{j}{i} : ∀ k l, {T} k l {j} {i} = -{T} k l {i} {j} := fun k l => {hS}.anti34 k l {j} {i}")
        names += [f"a{j}{i}", f"b{j}{i}"]
    for x in range(len(pairs)):
        for y in range(x):
            (k,l)=pairs[x]; (i,j)=pairs[y]
            L.append(f"  have p{k}{l}{i}{j} : {T} {k} {l} {i} {j} = {T} {i} {j} {k} {l} := {hS}.pair {k} {l} {i} {j}")
            names.append(f"p{k}{l}{i}{j}")
    rules=", ".join(["d12","d34"]+names)
    return "\n".join(L), rules
def lean_poly(e):
    e=sp.nsimplify(e)
    s=sp.sstr(sp.factor(e))
    s=s.replace("**","^")
    return s
def cert(sol):
    terms=[]
    for k_,c in sol.items():
        h="hcyc 0 1 2 3" if k_=="cyc" else "htr %d %d"%k_
        terms.append("(%s : K) * %s"%(lean_poly(c),h))
    return " + ".join(terms)
def gen(name,Lam,tgt,rot,par,a_name,b_name):
    T=lambda i,j,k,l:transform(Lam,i,j,k,l)
    new=psis(T)
    out=[]
    for n in range(5):
        diff=comb([(1,new[n]),(-1,tgt[n])])
        v=vec(diff)
        if all(x==0 for x in v): out.append(None)
        else: out.append(cert(solve(v)))
    return out

LamI,tgtI=classI(); LamII,tgtII=classII()
cI_raw=gen("I",LamI,tgtI,None,None,None,None)
cII_raw=gen("II",LamII,tgtII,None,None,None,None)
blk,rules=rules_block()
def fix(c):
    if c is None: return None
    c=c.replace("(b/2 : K) * htr 1 1","(b : K) * q11").replace("(b*bb^2/2 : K) * htr 1 1","(b*bb^2 : K) * q11")
    c=c.replace("(b/2 : K) * htr 3 3","(-b : K) * q33").replace("(b^2*bb/2 : K) * htr 0 0","(b^2*bb : K) * q00")
    c=c.replace("(bb/2 : K) * htr 2 2","(-bb : K) * q22").replace("(bb/2 : K) * htr 0 0","(bb : K) * q00")
    assert "/2" not in c
    return c
cI=[fix(c) for c in cI_raw]; cII=[fix(c) for c in cII_raw]
qblock='''  have q00 : T 0 2 0 3 = 0 := by
    have h := htr 0 0
    simp only [RULES, neg_neg, neg_zero, add_zero, zero_add, sub_zero] at h
    have h' : (2 : K) * T 0 2 0 3 = 0 := by linear_combination h
    exact (mul_eq_zero.mp h').resolve_left h2
  have q11 : T 1 2 1 3 = 0 := by
    have h := htr 1 1
    simp only [RULES, neg_neg, neg_zero, add_zero, zero_add, sub_zero] at h
    have h' : (2 : K) * T 1 2 1 3 = 0 := by linear_combination h
    exact (mul_eq_zero.mp h').resolve_left h2
  have q22 : T 0 2 1 2 = 0 := by
    have h := htr 2 2
    simp only [RULES, neg_neg, neg_zero, add_zero, zero_add, sub_zero] at h
    have h' : (2 : K) * T 0 2 1 2 = 0 := by linear_combination (-1 : K) * h
    exact (mul_eq_zero.mp h').resolve_left h2
  have q33 : T 0 3 1 3 = 0 := by
    have h := htr 3 3
    simp only [RULES, neg_neg, neg_zero, add_zero, zero_add, sub_zero] at h
    have h' : (2 : K) * T 0 3 1 3 = 0 := by linear_combination (-1 : K) * h
    exact (mul_eq_zero.mp h').resolve_left h2
'''.replace("RULES",rules)
def comp_proofs(certs, lam):
    out=[]
    for n,c in enumerate(certs):
        out.append("  · simp only [mixT, %s, Fin.sum_univ_four, vec4_0, vec4_1, vec4_2, vec4_3, zero_mul, mul_zero, add_zero, zero_add, one_mul, mul_one]"%lam)
        if c is None:
            out.append("    simp only [%s]\n    ring"%rules)
        else:
            out.append("    linear_combination (norm := (simp only [%s]; ring)) %s"%(rules,c))
    return "\n".join(out)
src=r'''/-
Lemmas/C10NPRot.lean — the transformation law of the Weyl scalars under null rotations, DERIVED from their
definition as tetrad components `Ψ0 = C(k,m,k,m)`, … (`Spec.Weyl.psi`), for every tensor `C` with the
Riemann symmetries, the cyclic identity and vanishing trace.

* frame level: `T_ijkl = C(t_i,t_j,t_k,t_l)` (`t = (l,k,m,m̄)`), a new frame `t'_i = Λ_i^j t_j`, and the certificates
  (linear combinations of the cyclic and the trace relations, found by exact linear algebra by tools/props/c10_nprot_certs.py and CHECKED here by `linear_combination`) that turn `T'` into the textbook polynomials;
* tensor level: multilinearity of `contract4`, symmetries of `contract4`, the trace relation in tetrad form from
  `g^{ac}C_abcd = 0` and the completeness relation `g^{ab} = −l^a k^b − k^a l^b + m^a m̄^b + m̄^a m^b`;
* the completeness relation of the code's null tetrad (`null_vector_base` of an orthonormal tetrad).
-/
import AurelVerif.Spec.WeylEB
import AurelVerif.Lemmas.C10WeylEB
import Mathlib.LinearAlgebra.Matrix.NonsingularInverse

set_option linter.unusedSimpArgs false
set_option linter.unusedVariables false

namespace AurelVerif.C10
open AurelVerif.Spec.Weyl AurelVerif.Model.WeylNP AurelVerif.Tensor

variable {K : Type} [Field K]

/-! ### frame level -/

/-- `Ψ0..Ψ4` from the frame components, frame order `(l, k, m, m̄) = (0, 1, 2, 3)`. -/
def psiOfFrame (T : Fin 4 → Fin 4 → Fin 4 → Fin 4 → K) : Scalars K where
  p0 := T 1 2 1 2
  p1 := T 1 0 1 2
  p2 := T 1 2 3 0
  p3 := T 1 0 3 0
  p4 := T 0 3 0 3

/-- components in the new frame `t'_i = Σ_j Λ_ij t_j`. -/
def mixT (Λ : Fin 4 → Fin 4 → K) (T : Fin 4 → Fin 4 → Fin 4 → Fin 4 → K) (i j k l : Fin 4) : K :=
  ∑ p, ∑ q, ∑ r, ∑ s, Λ i p * Λ j q * Λ k r * Λ l s * T p q r s

/-- class I (`k` fixed): `m' = m + b k`, `m̄' = m̄ + b̄ k`, `l' = l + b̄ m + b m̄ + b b̄ k`. -/
def lamI (b bb : K) : Fin 4 → Fin 4 → K :=
  vec4 (vec4 1 (b * bb) bb b) (vec4 0 1 0 0) (vec4 0 b 1 0) (vec4 0 bb 0 1)

/-- class II (`l` fixed): `m' = m + a l`, `m̄' = m̄ + ā l`, `k' = k + ā m + a m̄ + a ā l`. -/
def lamII (b bb : K) : Fin 4 → Fin 4 → K :=
  vec4 (vec4 1 0 0 0) (vec4 (b * bb) 1 bb b) (vec4 b 0 1 0) (vec4 bb 0 0 1)

/-- the trace relation in frame form: `−T(l,x,k,y) − T(k,x,l,y) + T(m,x,m̄,y) + T(m̄,x,m,y) = 0`. -/
def FrameTraceFree (T : Fin 4 → Fin 4 → Fin 4 → Fin 4 → K) : Prop :=
  ∀ x y : Fin 4, -T 0 x 1 y - T 1 x 0 y + T 2 x 3 y + T 3 x 2 y = 0

set_option maxHeartbeats 1000000 in
/-- **class I**: `Ψ_n → Σ_j C(n,j) b̄^j Ψ_{n−j}`. -/
theorem frame_rotI (h2 : (2 : K) ≠ 0) (T : Fin 4 → Fin 4 → Fin 4 → Fin 4 → K) (hS : RiemannSym T)
    (hcyc : Cyclic T) (htr : FrameTraceFree T) (b bb : K) :
    psiOfFrame (mixT (lamI b bb) T) = rotI bb (psiOfFrame T) := by
BLK
QBLK
  simp only [psiOfFrame, rotI, Scalars.mk.injEq]
  refine ⟨?_, ?_, ?_, ?_, ?_⟩
PROOFI

set_option maxHeartbeats 1000000 in
/-- **class II**: the mirrored law with parameter `b` (`m' = m + b l`). -/
theorem frame_rotII (h2 : (2 : K) ≠ 0) (T : Fin 4 → Fin 4 → Fin 4 → Fin 4 → K) (hS : RiemannSym T)
    (hcyc : Cyclic T) (htr : FrameTraceFree T) (b bb : K) :
    psiOfFrame (mixT (lamII b bb) T) = rotII b (psiOfFrame T) := by
BLK
QBLK
  simp only [psiOfFrame, rotII, Scalars.mk.injEq]
  refine ⟨?_, ?_, ?_, ?_, ?_⟩
PROOFII

end AurelVerif.C10
'''
src=src.replace("BLK",blk,1).replace("QBLK",qblock.rstrip("\n"),1).replace("PROOFI",comp_proofs(cI,"lamI"),1)
src=src.replace("BLK",blk,1).replace("QBLK",qblock.rstrip("\n"),1).replace("PROOFII",comp_proofs(cII,"lamII"),1)
src=src.replace("unfold FrameTraceFree at htr\n","")
open(OUT,'w').write(src)
print('wrote',OUT)
