"""C12 — the per-iteration read cache never changes what read_data returns.

Tie B: Model/ReadCache.lean (hand-written: cache read, its_missing, union of
missing iterations per variable, fill by nearest 'it', save_data by position in
data['it']) against the real `aurel.read_data` on random read histories over
generated Carpet-style directories (lib/etgen.py): after every call the
returned dict and EVERY dataset of EVERY all_iterations/it_*.hdf5 are compared
with the model's rows and store.
Search oracle (independent of model and code): the generator's ground truth —
every returned cell equals the stored grid of its (variable, iteration, level,
latest restart), and every cache dataset holds the data of the file and
dataset name it is filed under.

Extended histories (Model/ReadCacheX.lean, Props/C12b.lean): one whole read_data
call with vars=[] next to explicit requests (tensor and component names mixed),
usecheckpoints=True calls, skip_last changing from call to call (the catalogue
iterations.txt is dumped and compared too), explicit restarts (also ones not
catalogued yet: KeyError), requests that find nothing ({}), 1-12 refinement
levels (labels 10/11 next to 1), restarts that lack a requested variable and a
restart without 3D output.  Calls that RAISE are compared as well (status and the
cache they leave behind).  Oracles: the ground truth (None expected where a
restart lacks the variable), "dataset content matches what it is filed under",
and — the property itself — every second cached read (and every cached read that
raises) is repeated uncached on the real code and the two dictionaries are compared.
"""
import glob
import os
import re
import shutil
import tempfile

import numpy as np

from lib import etgen, fw
from props import C11

MODULE = "AurelVerif.Props.C12"
THEOREMS = ["AurelVerif.C12." + t for t in (
    "cache_refines_source", "cache_history", "returned_cells", "returned_cells_one_call", "read_returns",
    "returned_structure", "save_files_right_iteration", "nearest_exact")]
MODULE_B = "AurelVerif.Props.C12b"
THEOREMS_B = ["AurelVerif.C12." + t for t in (
    "cacheX_history", "cacheX_refines_source", "returned_cellsX", "cached_cells_always", "returned_cellsX_history",
    "cachedX_equals_uncached",
    "nocache_call", "vars_all_is_request_for_first_restart", "returned_structureX", "returned_structureX_history",
    "catalogue_only_grows",
    "early_raise_keeps_cache",
    "lacking_variable_None", "starved_restart_asymmetry", "skip_last_history")]
LEAN_FILES = ["AurelVerif/Props/C12.lean", "AurelVerif/Lemmas/ReadCache.lean", "AurelVerif/Model/ReadCache.lean",
              "AurelVerif/Props/C12b.lean", "AurelVerif/Model/ReadCacheX.lean", "AurelVerif/Lemmas/C12Pres.lean",
              "AurelVerif/Lemmas/C12Flat.lean", "AurelVerif/Lemmas/C12Restart.lean", "AurelVerif/Lemmas/C12Call.lean",
              "AurelVerif/Lemmas/C12History.lean", "Driver/C12.lean"]
MAX_REPORTS = 3


def report(ctx, what, replay, fp):
    seen = ctx.cov.setdefault("failing_inputs_by_site", {})
    seen[fp["site"]] = seen.get(fp["site"], 0) + 1
    if seen[fp["site"]] > MAX_REPORTS:
        return 1 if ctx.match_known(fp) is None else 0
    return 1 if ctx.violation(what, replay, fp) else 0


# ----------------------------------------------------------------- canonical values
def src_code(vid, it, rl, restart):
    return ((vid * 4096 + it) * 16 + rl) * 8 + restart


def block_code(sim, arr):
    """identity of a whole block: the code of (var, it, rl, restart) if the array is
    exactly the stored grid of that identity, else 'junk'"""
    if arr is None:
        return "-"
    a = np.asarray(arr)
    if a.ndim != 3 or a.size == 0:
        return "junk"
    d = etgen.decode(a.flat[0])
    if "junk" in d or d["var"] not in etgen.VAR_ID or d["rl"] >= len(sim.desc["levels"]):
        return "junk"
    exp = sim.truth(d["var"], d["it"], d["rl"], d["restart"])
    if exp.shape != a.shape or not np.array_equal(exp, a):
        return "junk"
    return str(src_code(etgen.VAR_ID[d["var"]], d["it"], d["rl"], d["restart"]))


def time_code(t, rl):
    if t is None:
        return "-"
    t = float(np.asarray(t))
    r = int(t // 1000)
    it4 = (t - 1000 * r) * 4
    if it4 != int(it4) or r < 0 or r > 7:
        return "junk"
    return str(src_code(0, int(it4), rl, r))


def dump_cache(sim):
    """{'R/it/name/rl': value code} over every dataset of every cache file"""
    out = {}
    for r in sim.desc["restarts"]:
        for fn in glob.glob(os.path.join(sim.cachedir(r["number"]), "*")):
            m = re.match(r"^it_(\d+)\.hdf5$", os.path.basename(fn))
            import h5py
            with h5py.File(fn, "r") as f:
                for key in f.keys():
                    km = re.match(r"^(.*) rl=(\d+)$", key)
                    if not m or not km:
                        out["%d/%s/%s" % (r["number"], os.path.basename(fn), key)] = "unexpected"
                        continue
                    name, rl = km.group(1), int(km.group(2))
                    val = np.array(f[key])
                    if name == "t":
                        code, nm = time_code(val, rl), "t"
                    elif name == "it":
                        code, nm = (str(int(val)) if val.shape == () and val == int(val) else "junk"), "it"
                    elif name in etgen.VAR_ID:
                        code, nm = block_code(sim, val), "v%d" % etgen.VAR_ID[name]
                    else:
                        code, nm = "unexpected", name
                    out["%d/%d/%s/%d" % (r["number"], int(m.group(1)), nm, rl)] = code
    return out


def cache_oracle(sim, dump):
    """None or the first dataset whose content does not match what it is filed under"""
    for k in sorted(dump):
        parts = k.split("/")
        if len(parts) != 4 or dump[k] in ("unexpected", "junk"):
            return "cache dataset %s holds %s" % (k, dump[k])
        r, it, nm, rl = int(parts[0]), int(parts[1]), parts[2], int(parts[3])
        want = str(it) if nm == "it" else str(src_code(0 if nm == "t" else int(nm[1:]), it, rl, r))
        if dump[k] != want:
            got = dump[k]
            return "cache dataset %s (restart %d, it_%d.hdf5, '%s rl=%d') holds the data of code %s, expected %s" % (
                k, r, it, nm, rl, got, want)
    return None


def real_rows(sim, call, data):
    """canonical rows of the returned dict: [(it, {name: code})]"""
    comps = []
    for n in call["vars"]:
        for c in etgen.components(n):
            if c not in comps:
                comps.append(c)
    rows = []
    for i, it in enumerate(data["it"]):
        row = {"t": time_code(data["t"][i], call["rl"])}
        for c in comps:
            row["v%d" % etgen.VAR_ID[c]] = block_code(sim, data[c][i]) if c in data and i < len(data[c]) else "absent"
        rows.append((int(it), row))
    return rows


def parse_model(line):
    """-> ('err'|'ok', rows [(it, restart, {name: code})], store {key: code})"""
    head, _, store = line.partition(" # ")
    st = {}
    for e in store.split():
        k, _, v = e.partition("=")
        st[k] = v
    if head.strip() == "err":
        return "err", [], st
    rows = []
    body = head[3:].strip()
    for r in body.split(";") if body else []:
        it, rr, vals = r.split(":", 2)
        rows.append((int(it), int(rr), dict(v.split("=") for v in vals.split(",") if v)))
    return "ok", rows, st


def call_line(sim, call):
    considered = sim.restart_numbers(call["skip_last"])
    av = ",".join("%d:%d:%d" % (r, min(sim.its_of(r)), max(sim.its_of(r))) for r in considered)
    req = ";".join(",".join(str(etgen.VAR_ID[c]) for c in etgen.components(n)) for n in call["vars"])
    return "read %s %d %s %s %d %d %d" % (av, 1 if sim_grouped(sim) else 0, req, ",".join(map(str, call["it"])),
                                           call["rl"], call["restart"], 1 if call["split"] else 0)


def sim_grouped(sim):
    """`variables_grouped` of the code: some file of the layout holds more than one variable"""
    return any(len(vs) > 1 for vs in sim.files_for().values())


# ----------------------------------------------------------------- histories
def random_history(rng, sim, ncalls, skip_last):
    d = sim.desc
    considered = sim.restart_numbers(skip_last)
    pool = sorted({i for r in d["restarts"] if r["number"] in considered for i in r["its"]})
    req = list(d["requests"])
    tensors = [n for n in req if n in etgen.TENSORS]
    calls = []
    for k in range(ncalls):
        mode = rng.random()
        if k == 0 and tensors and rng.random() < 0.6:
            # seed the cache with ONE component at FEW iterations: the partially filled
            # cache that the tensor request then meets
            names = [rng.choice(etgen.components(rng.choice(tensors)))]
            its = rng.sample(pool, rng.randint(1, max(1, len(pool) // 2)))
        elif mode < 0.35:
            names = rng.sample(req, rng.randint(1, len(req)))
            its = rng.sample(pool, rng.randint(1, len(pool)))
        elif mode < 0.7:
            names = [c for n in req for c in (etgen.components(n) if rng.random() < 0.6 else [n])]
            names = rng.sample(names, rng.randint(1, len(names)))
            its = rng.sample(pool, rng.randint(1, len(pool)))
        else:
            names = list(req)
            its = list(pool)
        if rng.random() < 0.2:
            its = its + [rng.choice(its)]
        call = {"it": its, "vars": names, "rl": rng.randrange(len(d["levels"])), "restart": -1,
                "skip_last": skip_last, "split": rng.random() < 0.75}
        if rng.random() < 0.2:
            r = rng.choice(considered)
            lo, hi = min(sim.its_of(r)), max(sim.its_of(r))
            if any(lo <= i <= hi for i in its):
                call["restart"] = r
        calls.append(call)
    return calls


def scribble(data):
    """what a caller may do with the arrays it was handed: post-process them IN PLACE (the reading functions must
    hand out arrays of their own, never objects they will hand out again)"""
    if not isinstance(data, dict):
        return
    for k, col in data.items():
        if k == "it" or not isinstance(col, (list, tuple)):
            continue
        for a in col:
            if isinstance(a, np.ndarray) and a.flags.writeable and a.dtype.kind == "f":
                a *= -3.0
                a += 0.125



def run_history(ctx, root, desc, calls):
    """-> (lines, real outputs [(status, rows, dump)], #violations)"""
    sim = etgen.Sim(root, desc).write()
    found = 0
    lines, reals = ["reset"], [None]
    try:
        param = sim.param()
        for ci, call in enumerate(calls):
            lines.append(call_line(sim, call))
            try:
                data = C11.do_read(param, call, split_per_it=call["split"])
                status, diff = "ok", C11.check_against_truth(sim, call, data)
                rows = real_rows(sim, call, data)
                scribble(data)          # after everything was compared: the caller post-processes its arrays in place
            except Exception as ex:  # noqa
                status, rows, diff = "err", [], "raised %s: %s" % (type(ex).__name__, str(ex)[:200])
            dump = dump_cache(sim)
            cdiff = cache_oracle(sim, dump)
            reals.append((status, rows, dump))
            ctx.count("history_calls")
            ctx.count("history_calls_split" if call["split"] else "history_calls_direct")
            for what, site in ((diff, "read_data"), (cdiff, "cache")):
                if what:
                    found += report(ctx, "call %d of a read history (%s, split_per_it=%s) on a %s/%s directory: %s" % (
                        ci + 1, {k: call[k] for k in ("it", "vars", "rl", "restart")}, call["split"],
                        "file-per-process" if desc["per_proc"] else "one-file",
                        "grouped" if desc["grouped"] else "one-variable-per-file", what),
                        {"kind": "history", "desc": sim.describe(), "calls": calls[:ci + 1]},
                        {"site": site, "grouped": desc["grouped"], "per_proc": desc["per_proc"],
                         "kind": what.split(":")[0][:40]})
    finally:
        sim.remove()
    return lines, reals, found


def compare(real, model_line):
    """None or a description of the first difference between code and model"""
    if real is None:
        return None if model_line == "ok" else "reset -> %s" % model_line
    status, rows, dump = real
    mstatus, mrows, mstore = parse_model(model_line)
    if status != mstatus:
        return "impl %s, model %s" % (status, mstatus)
    if status == "ok":
        if [it for it, _ in rows] != [it for it, _, _ in mrows]:
            return "iterations: impl %s, model %s" % ([it for it, _ in rows], [it for it, _, _ in mrows])
        for (it, row), (_, _, mrow) in zip(rows, mrows):
            if row != mrow:
                return "row it=%d: impl %s, model %s" % (it, row, mrow)
    if dump != mstore:
        ks = sorted(set(dump) ^ set(mstore)) or sorted(k for k in dump if dump[k] != mstore.get(k))
        k = ks[0]
        return "cache dataset %s: impl %s, model %s" % (k, dump.get(k, "absent"), mstore.get(k, "absent"))
    return None


# ----------------------------------------------------------------- extended histories (Model/ReadCacheX.lean)
# vars=[] next to explicit requests, usecheckpoints, skip_last changing from call to call (the catalogue
# iterations.txt is persistent), up to twelve levels, restarts that lack a variable, a restart without 3D output.
def comp_ids(name):
    return [etgen.VAR_ID[c] for c in etgen.components(C11.ET_TO_AUREL.get(name, name))]


def restart_grouped(sim, r):
    return any(len(vs) > 1 for vs in sim.files_for(r).values())


def read_catalogue(sim):
    """(catalogued restart numbers in file order, {restart: ['var available' names]}) from iterations.txt"""
    p = os.path.join(sim.simdir, "iterations.txt")
    done, va, cur = [], {}, None
    if os.path.exists(p):
        for li in open(p).read().split("\n"):
            if li.startswith(" === restart "):
                cur = int(li.split(" === restart ")[1])
                done.append(cur)
            elif li.startswith("3D variables available: [") and cur is not None:
                va[cur] = re.findall(r"'([^']*)'", li.split("3D variables available: ", 1)[1])
    return done, va


def world_line(sim, va, no3d=()):
    """the directory as Model/ReadCacheX.World; `va`: 'var available' per catalogued restart (its ORDER is taken
    from the real catalogue — it follows the file system order — its CONTENT is checked against the generator)"""
    out, bad = [], None
    for r in sorted(sim.desc["restarts"], key=lambda r: r["number"]):
        n = r["number"]
        ck = sim.checkpoint_its(n)
        cheld = sorted(etgen.VAR_ID[v] for v in sim.written_vars(r))
        if n in no3d:
            its, held, names = ck, [], None
        else:
            its, held = r["its"], cheld
            names = va.get(n)
            truth = sorted(sim.written_vars(r))
            if names is None:
                names = truth               # never catalogued: the order is never used
            elif sorted(c for nm in names for c in etgen.components(nm)) != truth:
                bad = "restart %d: catalogue lists %s, the generator wrote %s" % (n, names, truth)
        out.append("%d:%s:%s:%d:%s:%s:%s" % (
            n, "%d-%d" % (min(its), max(its)) if its else "-",
            "+".join(map(str, sorted(ck))) if ck else "e", 1 if (n not in no3d and restart_grouped(sim, r)) else 0,
            "-" if names is None else "|".join(",".join(map(str, comp_ids(nm))) for nm in names),
            ",".join(map(str, held)) if held else "e", ",".join(map(str, cheld)) if cheld else "e"))
    return "world " + ";".join(out), bad


def callx_line(call):
    req = ";".join(",".join(map(str, comp_ids(n))) for n in call["vars"]) if call["vars"] else "-"
    return "callx %d %s %s %d %d %d %d" % (1 if call["skip_last"] else 0, req, ",".join(map(str, call["it"])),
                                           call["rl"], call["restart"], 1 if call["split"] else 0,
                                           1 if call.get("usecheckpoints") else 0)


def real_rows_x(sim, call, data):
    """canonical rows of the returned dict over ALL its columns: [(it, {name: code})]"""
    if "it" not in data:
        return []
    rows = []
    for i, it in enumerate(data["it"]):
        row = {}
        for k, col in data.items():
            if k == "it":
                continue
            if i >= len(col):
                row[k] = "short"
            elif k == "t":
                row["t"] = time_code(col[i], call["rl"])
            elif k in etgen.VAR_ID:
                row["v%d" % etgen.VAR_ID[k]] = block_code(sim, col[i])
            else:
                row[k] = "unexpected"
        rows.append((int(it), row))
    return rows


def expected_rows_x(sim, call, considered, no3d=()):
    """[(it, restart)] a correct reader returns, given the restarts catalogued so far (independent of the model)"""
    chk = bool(call.get("usecheckpoints"))

    def holds(r, it):
        if chk:
            return it in sim.checkpoint_its(r)
        its = sim.checkpoint_its(r) if r in no3d else sim.its_of(r)
        return bool(its) and min(its) <= it <= max(its)
    rows = []
    for it in sorted(set(call["it"])):
        cand = [call["restart"]] if call["restart"] >= 0 else sorted(considered)
        cand = [r for r in cand if r in considered and holds(r, it)]
        if cand:
            rows.append((it, max(cand)))
    return rows


def truth_oracle_x(sim, call, data, rows, names, starved=()):
    """None or the first difference between the returned dict and the generator's ground truth; `names`: the
    requested names (for vars=[]: the scalars the first restart read holds); `starved`: restarts that hold none
    of them (a cached read returns their rows with t = None, see run_history_x)"""
    chk = bool(call.get("usecheckpoints"))
    if not rows and data == {}:
        return None
    if "it" not in data or [int(i) for i in data["it"]] != [it for it, _ in rows]:
        return "iterations returned %s, expected %s" % ([int(i) for i in data.get("it", [])], [it for it, _ in rows])
    want_t = [sim.time(it, r, chk) for it, r in rows]
    got_t = [None if t is None else float(t) for t in data["t"]]
    # the time of a starved restart's row is None unless an earlier call cached it
    if len(got_t) != len(want_t) or any(g != w and not (g is None and r in starved)
                                        for g, w, (_, r) in zip(got_t, want_t, rows)):
        return "times returned %s, expected %s" % (list(data["t"]), want_t)
    for n in names:
        for c in C11.request_components(n):
            if not any(sim.has_var(c, r) for _, r in rows):
                if c in data and any(x is not None for x in data[c]):
                    return "variable %s was not written by any restart read, yet data came back" % c
                continue
            if c not in data:
                return "variable %s (requested as %s) missing from the result (keys %s)" % (c, n, sorted(data))
            if len(data[c]) != len(rows):
                return "variable %s has %d entries for %d iterations" % (c, len(data[c]), len(rows))
            for i, (it, r) in enumerate(rows):
                if not sim.has_var(c, r):
                    if data[c][i] is not None:
                        return "%s it=%d: restart %d did not write it, expected None" % (c, it, r)
                    continue
                if data[c][i] is None:
                    return "%s it=%d restart=%d: None returned, the data is stored" % (c, it, r)
                exp = sim.truth(c, it, call["rl"], r, chk)
                got = np.asarray(data[c][i])
                if got.shape != exp.shape or not np.array_equal(got, exp):
                    return "%s it=%d rl=%d restart=%d: not the stored grid (first value decodes to %s)" % (
                        c, it, call["rl"], r, etgen.decode(got.flat[0]) if got.size else "empty")
    return None


def twin_diff(sim, call, data, twin):
    """None or the first difference between a cached read and the same read with split_per_it=False, on the
    columns of the cached read (the uncached read of a group file also returns the unrequested members)"""
    if ("it" in data) != ("it" in twin):
        return "cached returns keys %s, uncached keys %s" % (sorted(data), sorted(twin))
    if "it" not in data:
        return None
    if [int(i) for i in data["it"]] != [int(i) for i in twin["it"]]:
        return "iterations cached %s, uncached %s" % (list(data["it"]), list(twin["it"]))
    for k in data:
        if k == "it":
            continue
        if k not in twin:
            if any(x is not None for x in data[k]):
                return "column %s only in the cached result" % k
            continue
        if len(data[k]) != len(twin[k]):
            return "column %s: %d entries cached, %d uncached" % (k, len(data[k]), len(twin[k]))
        for i, (a, b) in enumerate(zip(data[k], twin[k])):
            if (a is None) != (b is None) or (a is not None and not np.array_equal(np.asarray(a), np.asarray(b))):
                return "column %s, iteration %d: cached and uncached values differ" % (k, int(data["it"][i]))
    return None


def random_history_x(rng, sim, ncalls, nlevels, no3d=()):
    d = sim.desc
    numbers = sim.restart_numbers(False)
    pool = sim.all_its()
    ckpool = sorted({i for r in numbers for i in sim.checkpoint_its(r)})
    req = list(d["requests"])
    tensors = [n for n in req if n in etgen.TENSORS]
    skip = len(numbers) >= 2 and rng.random() < 0.5
    calls = []
    for k in range(ncalls):
        mode = rng.random()
        if k == 0 and tensors and rng.random() < 0.4:
            names = [rng.choice(etgen.components(rng.choice(tensors)))]
            its = rng.sample(pool, rng.randint(1, max(1, len(pool) // 2)))
        elif mode < 0.25:
            names, its = [], rng.sample(pool, rng.randint(1, len(pool)))            # vars=[]
        elif mode < 0.45:
            names = rng.sample(req, rng.randint(1, len(req)))
            its = rng.sample(pool, rng.randint(1, len(pool)))
        elif mode < 0.8:
            names = [c for n in req for c in (etgen.components(n) if rng.random() < 0.6 else [n])]
            names = rng.sample(names, rng.randint(1, len(names)))
            if rng.random() < 0.15 and tensors:
                names.append(rng.choice(tensors))                                      # a component next to its tensor
            its = rng.sample(pool, rng.randint(1, len(pool)))
        else:
            names, its = list(req), list(pool)
        if rng.random() < 0.2:
            its = its + [rng.choice(its)]
        if rng.random() < 0.05:
            its = [max(pool) + 1000]                                                    # nothing to read: {}
        call = {"it": its, "vars": names, "rl": rng.randrange(nlevels), "restart": -1,
                "skip_last": skip, "split": rng.random() < 0.75}
        if ckpool and rng.random() < 0.3:
            call["usecheckpoints"] = True
            call["it"] = rng.sample(ckpool, rng.randint(1, len(ckpool))) + (
                [rng.choice(pool)] if rng.random() < 0.3 else [])
        if rng.random() < 0.2:
            call["restart"] = rng.choice(numbers)           # may not be catalogued yet: KeyError in both modes
        calls.append(call)
        if len(numbers) >= 2 and rng.random() < 0.35:
            skip = not skip                                 # skip_last changes within the history
    return calls


def run_history_x(ctx, root, desc, calls, no3d=()):
    """-> (lines, real outputs [(status, rows, dump, catalogue)], #violations)"""
    sim = etgen.Sim(root, desc).write()
    for n in no3d:
        # the restart wrote checkpoints only
        for fn in glob.glob(sim.outdir(n) + "/*.h5"):
            if "checkpoint.chkpt" not in os.path.basename(fn):
                os.remove(fn)
    found = 0
    reals = [None]
    considered = set()
    try:
        param = sim.param()
        for ci, call in enumerate(calls):
            cand = sim.restart_numbers(call["skip_last"])
            nothing = not cand and not considered                  # ImportError "Nothing to process"
            considered |= set(cand)
            rows_exp = expected_rows_x(sim, call, considered, no3d)
            first = min((r for _, r in rows_exp), default=None)
            names = call["vars"] or (sorted(sim.written_vars(next(r for r in desc["restarts"] if r["number"] == first)))
                                     if first is not None and first not in no3d else [])
            comps = [c for n in names for c in C11.request_components(n)]
            read3d = sorted({r for _, r in rows_exp})
            chk = bool(call.get("usecheckpoints"))
            lacking = [r for r in read3d if any(not sim.has_var(c, r) for c in comps)]
            starved = [r for r in read3d if not any(sim.has_var(c, r) for c in comps)]
            # calls that MAY raise (judged from the request and the generator's description only)
            may_raise = (nothing or (call["restart"] >= 0 and call["restart"] not in considered)
                         or bool(starved) or (chk and bool(lacking))
                         or (not call["vars"] and first is not None and first in no3d)
                         or any(r in no3d for r in read3d) and not chk)
            data, diff, twin_note = None, None, None
            try:
                data = C11.do_read(param, call, split_per_it=call["split"])
                status, rows = "ok", real_rows_x(sim, call, data)
                diff = truth_oracle_x(sim, call, data, rows_exp, names, starved)
                if not call["vars"] and not diff:
                    extra = sorted(set(data) - set(comps) - {"it", "t"})
                    if extra:
                        diff = "vars=[] returned columns %s that the first restart read does not hold" % extra
                if starved and call["split"] and not chk and not diff:
                    # remaining asymmetry (/repo b788cb7): a restart that holds NONE of the requested variables —
                    # the cached read returns its rows with t = None, the uncached read raises IndexError
                    ctx.count("starved_restart_cached_read_returns_rows_with_t_None")
                    ctx.cov.setdefault("starved_restart_example", {
                        "restarts": [(r["number"], r["its"], r.get("skip_vars")) for r in desc["restarts"]],
                        "call": {k: call[k] for k in ("it", "vars", "rl", "restart", "split")},
                        "cached_read": "returns %d rows; in the rows of restart(s) %s every requested variable is "
                                       "None and so is t unless an earlier call cached it" % (len(rows), starved),
                        "uncached_read": "raises IndexError (flattening: the restart's time column is empty)"})
            except Exception as ex:  # noqa
                status, rows = "err", []
                if not may_raise:
                    diff = "raised %s: %s" % (type(ex).__name__, str(ex)[:200])
            dump = dump_cache(sim)
            cdiff = cache_oracle(sim, dump)
            reals.append((status, rows, dump, read_catalogue(sim)[0]))
            ctx.count("xhistory_calls")
            for key, cond in (("xhistory_calls_vars_all", not call["vars"]), ("xhistory_calls_checkpoints", chk),
                              ("xhistory_calls_cached", call["split"] and not chk),
                              ("xhistory_calls_explicit_restart", call["restart"] >= 0),
                              ("xhistory_calls_raised", status == "err"),
                              ("xhistory_calls_reading_a_restart_that_lacks_a_variable", bool(lacking) and not chk),
                              ("xhistory_calls_level_ge_10", call["rl"] >= 10)):
                if cond:
                    ctx.count(key)
            # the property itself on the real code: the same read without the cache
            if call["split"] and not chk and (status == "err" or not hasattr(ctx, "rng") or ctx.rng.random() < 0.5):
                try:
                    twin = C11.do_read(param, call, split_per_it=False)
                    ctx.count("xhistory_twin_reads")
                    if status == "err":
                        twin_note = "the cached read raised, the uncached read of the same arguments returns"
                    else:
                        twin_note = twin_diff(sim, call, data, twin)
                except Exception:  # noqa
                    if status == "ok" and not starved:
                        twin_note = "the uncached read raised, the cached read of the same arguments returns"
            for what, site in ((diff, "read_data"), (cdiff, "cache"), (twin_note, "cached_vs_uncached")):
                if what:
                    found += report(ctx, "call %d of a read history (%s) on a %s/%s directory: %s" % (
                        ci + 1, {k: call.get(k) for k in ("it", "vars", "rl", "restart", "split", "skip_last",
                                                          "usecheckpoints")},
                        "file-per-process" if desc["per_proc"] else "one-file",
                        "grouped" if desc["grouped"] else "one-variable-per-file", what),
                        {"kind": "history", "x": True, "desc": sim.describe(), "calls": calls[:ci + 1],
                         "no3d": list(no3d)},
                        {"site": site, "grouped": desc["grouped"], "per_proc": desc["per_proc"],
                         "kind": what.split(":")[0][:40]})
        wl, bad = world_line(sim, read_catalogue(sim)[1], no3d)
        lines = [wl] + [callx_line(c) for c in calls]
        if bad:
            reals[0] = bad
    finally:
        sim.remove()
    return lines, reals, found


def parse_model_x(line):
    parts = line.split(" # ")
    if len(parts) != 4:
        return None
    status, mrows, mstore = parse_model(parts[0] + " # " + parts[1])
    done = [int(x) for x in parts[2].split(",") if x.strip()]
    return status, mrows, mstore, done, parts[3].strip()


def compare_x(call, real, model_line):
    """None or a description of the first difference between code and Model/ReadCacheX"""
    if call is None:
        if isinstance(real, str):
            return "catalogue: " + real
        return None if model_line == "ok" else "world -> %s" % model_line
    status, rows, dump, done = real
    pm = parse_model_x(model_line)
    if pm is None:
        return "model output not understood: %s" % model_line[:120]
    mstatus, mrows, mstore, mdone, old = pm
    if old == "old=diff":
        return "Model/ReadCache.lean and Model/ReadCacheX.lean disagree on this call"
    if status != mstatus:
        return "impl %s, model %s" % (status, mstatus)
    if status == "ok":
        if [it for it, _ in rows] != [it for it, _, _ in mrows]:
            return "iterations: impl %s, model %s" % ([it for it, _ in rows], [it for it, _, _ in mrows])
        uncached_grouped = not call["split"] and not call.get("usecheckpoints")
        for (it, row), (_, _, mrow) in zip(rows, mrows):
            # the uncached read of a group file also returns the unrequested members of the group
            sub = {k: v for k, v in row.items() if k in mrow} if uncached_grouped else row
            if sub != mrow:
                return "row it=%d: impl %s, model %s" % (it, row, mrow)
    if dump != mstore:
        ks = sorted(set(dump) ^ set(mstore)) or sorted(k for k in dump if dump[k] != mstore.get(k))
        k = ks[0]
        return "cache dataset %s: impl %s, model %s" % (k, dump.get(k, "absent"), mstore.get(k, "absent"))
    if done != mdone:
        return "catalogued restarts: impl %s, model %s" % (done, mdone)
    return None


def x_directories(ctx, tmp, nd):
    """the extended histories; -> (lines, reals, calls per line, #violations)"""
    rng = ctx.rng
    all_lines, all_reals, all_calls, found = [], [], [], 0
    kinds = {}
    for k in range(nd):
        per_proc, grouped = bool(k & 1), bool(k & 2)
        kind = ("plain", "checkpoints", "lacking", "levels12", "checkpoints", "plain", "no3d", "lacking")[k % 8] \
            if k >= 4 else ("plain", "checkpoints", "levels12", "lacking")[k]
        no3d = ()
        if kind == "levels12":
            desc = etgen.random_desc(rng, "c12x%d" % k, per_proc=False, grouped=grouped, nlevels=12,
                                     nrest=rng.randint(1, 2), nmax=3, kmax=(1, 1, 1), gmax=1, nvars=1, nits=2)
        else:
            desc = etgen.random_desc(rng, "c12x%d" % k, per_proc=per_proc, grouped=grouped,
                                     nlevels=1 + (k // 4) % 2, nrest=(rng.randint(2, 3) if kind != "plain" else None),
                                     nmax=4, kmax=(2, 2, 2), gmax=2, nvars=rng.randint(1, 2), nits=4)
        if kind != "levels12" and k % 3 == 0 and not any(n in etgen.TENSORS for n in desc["requests"]):
            t = rng.choice(sorted(etgen.TENSORS))
            desc["requests"].append(t)
            desc["vars"] = sorted(set(desc["vars"]) | set(etgen.components(t)))
        if kind in ("checkpoints", "no3d"):
            etgen.add_random_checkpoints(rng, desc, prob=1.0 if kind == "no3d" else 0.8)
        if kind == "lacking":
            if len(desc["vars"]) < 2 and not desc["grouped"]:
                extra = rng.choice([v for v in sorted(etgen.VARS) if v not in desc["vars"]])
                desc["vars"] = sorted(desc["vars"] + [extra])
                desc["requests"].append(extra)
            etgen.add_random_skips(rng, desc)
        if kind == "no3d":
            no3d = (desc["restarts"][-1]["number"],)
        sim = etgen.Sim(tmp + "/", desc)
        calls = random_history_x(rng, sim, rng.randint(4, 9), len(desc["levels"]), no3d)
        if kind == "levels12":
            for c, rl in zip(calls, [11, 10, 1, 1, 0, 2, 1, 11, 10]):
                c["rl"] = rl
        kinds[kind] = kinds.get(kind, 0) + 1
        if k == 0:
            ctx.sample({"xhistory": calls[:3], "requests": desc["requests"], "restarts": desc["restarts"]})
        lines, reals, f = run_history_x(ctx, tmp + "/", desc, calls, no3d)
        found += f
        all_lines += lines
        all_reals += reals
        all_calls += [None] + calls
    ctx.cov["xhistory_directories"] = nd
    ctx.cov["xhistory_kinds"] = kinds
    return all_lines, all_reals, all_calls, found


def run(ctx):
    ctx.trusted += ["Lean 4.33 kernel; axioms propext, Classical.choice, Quot.sound",
                    "Model/ReadCache.lean is hand-written; tied to read_data(split_per_it=True/False) by "
                    "correspondence on read histories (returned rows and every cache dataset after every call)",
                    "the uncached read is the abstract source `src` of the model (what C11 establishes)",
                    "lib/etgen.py (generator and ground truth)", "h5py / HDF5"]
    ctx.trusted += ["Model/ReadCacheX.lean (one whole read_data call: catalogue, vars=[], usecheckpoints, restarts "
                    "lacking variables, calls that raise) is hand-written; tied to read_data by the extended "
                    "read-history correspondence; the checkpoint reader is abstract in the model (the driver's "
                    "instance is validated by the same correspondence)"]
    ctx.assumptions += ["one simulation directory, cache and catalogue initially empty, no concurrent writers",
                        "requested iterations inside a restart's range are stored in its files at the requested "
                        "level (otherwise read_ET_group_or_var raises in both modes; not modelled)",
                        "cached == uncached is proven when every restart that is read holds at least one requested "
                        "variable; a restart holding none: uncached raises IndexError, cached returns None rows "
                        "(Lean witness starved_restart_asymmetry; recorded in the coverage, no violation)"]
    ctx.prove(MODULE, THEOREMS)
    ctx.prove(MODULE_B, THEOREMS_B)
    ctx.forbidden_scan(LEAN_FILES)
    if ctx.tier == "thorough":
        ctx.leanchecker([MODULE, MODULE_B])
    rng = ctx.rng
    tmp = tempfile.mkdtemp(prefix="c12_")
    found = 0
    try:
        all_lines, all_reals = [], []
        nd = ctx.budget(40, 200) + (8 if ctx.broken() else 0)
        layouts = {}
        for k in range(nd):
            per_proc, grouped = bool(k & 1), bool(k & 2)
            desc = etgen.random_desc(rng, "c12sim%d" % k, per_proc=per_proc, grouped=grouped,
                                     nlevels=1 + (k // 4) % 2, nmax=5, kmax=(2, 2, 2), gmax=2,
                                     nvars=rng.randint(1, 2), nits=4)
            if k % 3 == 0 and not any(n in etgen.TENSORS for n in desc["requests"]):
                t = rng.choice(sorted(etgen.TENSORS))
                desc["requests"].append(t)
                desc["vars"] = sorted(set(desc["vars"]) | set(etgen.components(t)))
            many_levels = (k % 10 == 5)
            if many_levels:
                # a run with twelve refinement levels (level labels 10, 11 next to 1): tiny one-chunk levels
                desc = etgen.random_desc(rng, "c12sim%d" % k, per_proc=False, grouped=grouped, nlevels=12, nrest=1,
                                         nmax=3, kmax=(1, 1, 1), gmax=1, nvars=1, nits=2)
            sim = etgen.Sim(tmp + "/", desc)
            skip_last = len(desc["restarts"]) >= 2 and rng.random() < 0.2
            calls = random_history(rng, sim, rng.randint(3, 8), skip_last)
            if many_levels:
                # cached at levels 11 and 10 first, then read at level 1 (twice: cold and from the cache), then 0 and 2
                for c, rl in zip(calls, [11, 10, 1, 1, 0, 2, 1, 11]):
                    c["rl"] = rl
                    c["split"] = True
                ctx.count("histories_with_12_levels")
            lay = "%s/%s" % ("proc" if per_proc else "onefile", "group" if grouped else "var")
            layouts[lay] = layouts.get(lay, 0) + 1
            if k == 0:
                ctx.sample({"history": calls[:3], "requests": desc["requests"], "restarts": desc["restarts"]})
            lines, reals, f = run_history(ctx, tmp + "/", desc, calls)
            found += f
            all_lines += lines
            all_reals += reals
        ctx.cov["history_directories"] = nd
        ctx.cov["history_layouts"] = layouts
        ndx = ctx.budget(48, 240) + (8 if ctx.broken() else 0)
        x_lines, x_reals, x_calls, f = x_directories(ctx, tmp, ndx)
        found += f
        try:
            outs = ctx.run_driver("Driver/C12.lean", all_lines + x_lines)
        except Exception as ex:  # noqa
            outs = None
            ctx.obligation("correspondence:driver", False, repr(ex), kind="correspondence")
        if outs is not None:
            xouts, outs = outs[len(all_lines):], outs[:len(all_lines)]
            bad = []
            for line, call, real, out in zip(x_lines, x_calls, x_reals, xouts):
                d = compare_x(call, real, out)
                if d:
                    bad.append("%s -> %s" % (line[:200], d[:300]))
            ctx.cov["xcorrespondence_cases"] = len(x_lines)
            ctx.cov["xcache_datasets_compared"] = sum(len(r[2]) for r in x_reals if isinstance(r, tuple))
            ctx.cov["xcalls_in_the_domain_of_Model_ReadCache_and_equal_there"] = sum(
                1 for o in xouts if o.endswith("old=same"))
            ctx.sample({"xcorrespondence_case": x_lines[:2], "model_output": xouts[1][:300]})
            ctx.obligation("correspondence: Model/ReadCacheX vs read_data histories with vars=[], usecheckpoints, "
                           "changing skip_last, 12 levels, restarts lacking a variable / without 3D output (%d calls "
                           "in %d directories; rows, every cache dataset and the catalogue after every call, also "
                           "after a call that raises; Model/ReadCache agrees on its domain)"
                           % (len(x_lines) - ndx, ndx), not bad, "; ".join(bad[:4]), kind="correspondence")
            bad = []
            for line, real, out in zip(all_lines, all_reals, outs):
                d = compare(real, out)
                if d:
                    bad.append("%s -> %s" % (line[:160], d[:300]))
            ctx.cov["correspondence_cases"] = len(all_lines)
            ctx.cov["cache_datasets_compared"] = sum(len(r[2]) for r in all_reals if r)
            ctx.sample({"correspondence_case": all_lines[1], "model_output": outs[1][:200]})
            ctx.obligation("correspondence: Model/ReadCache vs read_data histories (%d calls in %d directories; rows "
                           "and every cache dataset after every call)" % (len(all_lines) - nd, nd),
                           not bad, "; ".join(bad[:4]), kind="correspondence")
    finally:
        shutil.rmtree(tmp, ignore_errors=True)


def replay(ctx, obj):
    tmp = tempfile.mkdtemp(prefix="c12_replay_")
    try:
        class Quiet:
            cov = {}

            def count(self, *a):
                pass

            def violation(self, what, replay, fp=None):
                print("replay:", what)
                return True

            def match_known(self, fp):
                return None
        if obj.get("x"):
            _, _, n = run_history_x(Quiet(), tmp + "/", obj["desc"], obj["calls"], tuple(obj.get("no3d", ())))
        else:
            _, _, n = run_history(Quiet(), tmp + "/", obj["desc"], obj["calls"])
        print("replay history: %s" % ("still failing" if n else "now correct"))
        return 1 if n else 0
    finally:
        shutil.rmtree(tmp, ignore_errors=True)


MANIFEST = {
    "category": "proof",
    "technique": "Lean 4 theorems over two hand-written models: the split_per_it branch (Model/ReadCache: abstract "
                 "source, cache store as a dictionary) and one whole read_data call (Model/ReadCacheX: persistent "
                 "catalogue with changing skip_last, vars=[], usecheckpoints, restarts lacking variables, calls that "
                 "raise half-way); store invariant by induction over every write of every call of every finite "
                 "history; models tied to the code by correspondence on random read histories with a complete dump "
                 "of the cache and the catalogue after every call; cached reads also compared with the same uncached "
                 "read on the real code",
    "text": "Proof for all finite histories of read_data calls (any iteration subsets, variable subsets or vars=[], "
            "tensor or component names, any level number, restart=-1 or explicit, split_per_it on/off, usecheckpoints "
            "on/off, skip_last changing from call to call, restarts that lack variables, calls that return and calls "
            "that raise half-way) starting from the empty cache: every dataset ever written to an "
            "all_iterations/it_<n>.hdf5 file equals the source at the (variable, iteration, level, restart) it is "
            "filed under (cacheX_history). Every call on 3D data, cached or not, on any cache with the invariant "
            "returns for every requested component in every row the source where the row's restart holds it and None "
            "where it does not, and the time, provided every restart read holds at least one requested component "
            "(returned_cellsX, cachedX_equals_uncached); vars=[] is proven to be the request for the variables of "
            "the first restart read; checkpoint and uncached calls are proven not to read or write the cache; the "
            "row order is C11's restart model for the catalogue of the call (returned_structureX). The models are "
            "tied to aurel.read_data by comparing, after every call of random histories on generated directories "
            "whose data differ at every iteration, the returned dict, every dataset of every cache file and the "
            "catalogue.",
    "note": "Trusted: Lean kernel + propext/Classical.choice/Quot.sound; the hand-written models (Model/ReadCache: 40 "
            "quick / 200 thorough directories x 3-8 calls; Model/ReadCacheX: 48 / 240 directories x 4-9 calls with "
            "vars=[], checkpoints, changing skip_last, 1-12 levels incl. labels 10/11 next to 1, restarts lacking a "
            "variable or without 3D output; the two models are compared with each other on the common domain in the "
            "driver); the uncached read as abstract source (C11); the checkpoint reader abstract (C11c models it); "
            "lib/etgen.py; h5py. NOT proven / remaining: (a) a restart that holds NONE of the requested variables: "
            "the uncached read raises IndexError, the cached read returns None rows (Lean witness "
            "starved_restart_asymmetry, counted in the coverage as starved_restart_*); (b) iterations or levels a "
            "restart's files do not hold (both modes raise; outside the model); (c) the values returned by "
            "checkpoint calls (only: the cache plays no part). Three defects found by this extension were fixed in "
            "/repo (e04ff7b, b788cb7: cached read raised KeyError / IndexError where the uncached read returns None "
            "for a variable a restart lacks).",
}
