"""C12 — the per-iteration read cache never changes what read_data returns.

Tie B: Model/ReadCache.lean (hand-written: cache read, its_missing, union of
missing iterations per variable, fill by nearest 'it', save_data by position in
data['it']) against the real `aurel.read_data` on random read histories over
generated Carpet-style directories (lib/etgen.py): after every call the
returned dict and EVERY dataset of EVERY all_iterations/it_*.hdf5 are compared
with the model's rows and store.
Search oracle (independent of model and code): the generator's ground truth —
every returned cell equals the stored grid of its (variable, iteration, level,
latest restart), and every cache dataset holds the data of the file and
dataset name it is filed under.
"""
import glob
import os
import re
import shutil
import tempfile

import numpy as np

from lib import etgen, fw
from props import C11

MODULE = "AurelVerif.Props.C12"
THEOREMS = ["AurelVerif.C12." + t for t in (
    "cache_refines_source", "cache_history", "returned_cells", "returned_cells_one_call", "read_returns",
    "returned_structure", "save_files_right_iteration", "nearest_exact")]
LEAN_FILES = ["AurelVerif/Props/C12.lean", "AurelVerif/Lemmas/ReadCache.lean", "AurelVerif/Model/ReadCache.lean",
              "Driver/C12.lean"]
MAX_REPORTS = 3


def report(ctx, what, replay, fp):
    seen = ctx.cov.setdefault("failing_inputs_by_site", {})
    seen[fp["site"]] = seen.get(fp["site"], 0) + 1
    if seen[fp["site"]] > MAX_REPORTS:
        return 1 if ctx.match_known(fp) is None else 0
    return 1 if ctx.violation(what, replay, fp) else 0


# ----------------------------------------------------------------- canonical values
def src_code(vid, it, rl, restart):
    return ((vid * 4096 + it) * 16 + rl) * 8 + restart


def block_code(sim, arr):
    """identity of a whole block: the code of (var, it, rl, restart) if the array is
    exactly the stored grid of that identity, else 'junk'"""
    if arr is None:
        return "-"
    a = np.asarray(arr)
    if a.ndim != 3 or a.size == 0:
        return "junk"
    d = etgen.decode(a.flat[0])
    if "junk" in d or d["var"] not in etgen.VAR_ID or d["rl"] >= len(sim.desc["levels"]):
        return "junk"
    exp = sim.truth(d["var"], d["it"], d["rl"], d["restart"])
    if exp.shape != a.shape or not np.array_equal(exp, a):
        return "junk"
    return str(src_code(etgen.VAR_ID[d["var"]], d["it"], d["rl"], d["restart"]))


def time_code(t, rl):
    if t is None:
        return "-"
    t = float(np.asarray(t))
    r = int(t // 1000)
    it4 = (t - 1000 * r) * 4
    if it4 != int(it4) or r < 0 or r > 7:
        return "junk"
    return str(src_code(0, int(it4), rl, r))


def dump_cache(sim):
    """{'R/it/name/rl': value code} over every dataset of every cache file"""
    out = {}
    for r in sim.desc["restarts"]:
        for fn in glob.glob(os.path.join(sim.cachedir(r["number"]), "*")):
            m = re.match(r"^it_(\d+)\.hdf5$", os.path.basename(fn))
            import h5py
            with h5py.File(fn, "r") as f:
                for key in f.keys():
                    km = re.match(r"^(.*) rl=(\d+)$", key)
                    if not m or not km:
                        out["%d/%s/%s" % (r["number"], os.path.basename(fn), key)] = "unexpected"
                        continue
                    name, rl = km.group(1), int(km.group(2))
                    val = np.array(f[key])
                    if name == "t":
                        code, nm = time_code(val, rl), "t"
                    elif name == "it":
                        code, nm = (str(int(val)) if val.shape == () and val == int(val) else "junk"), "it"
                    elif name in etgen.VAR_ID:
                        code, nm = block_code(sim, val), "v%d" % etgen.VAR_ID[name]
                    else:
                        code, nm = "unexpected", name
                    out["%d/%d/%s/%d" % (r["number"], int(m.group(1)), nm, rl)] = code
    return out


def cache_oracle(sim, dump):
    """None or the first dataset whose content does not match what it is filed under"""
    for k in sorted(dump):
        parts = k.split("/")
        if len(parts) != 4 or dump[k] in ("unexpected", "junk"):
            return "cache dataset %s holds %s" % (k, dump[k])
        r, it, nm, rl = int(parts[0]), int(parts[1]), parts[2], int(parts[3])
        want = str(it) if nm == "it" else str(src_code(0 if nm == "t" else int(nm[1:]), it, rl, r))
        if dump[k] != want:
            got = dump[k]
            return "cache dataset %s (restart %d, it_%d.hdf5, '%s rl=%d') holds the data of code %s, expected %s" % (
                k, r, it, nm, rl, got, want)
    return None


def real_rows(sim, call, data):
    """canonical rows of the returned dict: [(it, {name: code})]"""
    comps = []
    for n in call["vars"]:
        for c in etgen.components(n):
            if c not in comps:
                comps.append(c)
    rows = []
    for i, it in enumerate(data["it"]):
        row = {"t": time_code(data["t"][i], call["rl"])}
        for c in comps:
            row["v%d" % etgen.VAR_ID[c]] = block_code(sim, data[c][i]) if c in data and i < len(data[c]) else "absent"
        rows.append((int(it), row))
    return rows


def parse_model(line):
    """-> ('err'|'ok', rows [(it, restart, {name: code})], store {key: code})"""
    head, _, store = line.partition(" # ")
    st = {}
    for e in store.split():
        k, _, v = e.partition("=")
        st[k] = v
    if head.strip() == "err":
        return "err", [], st
    rows = []
    body = head[3:].strip()
    for r in body.split(";") if body else []:
        it, rr, vals = r.split(":", 2)
        rows.append((int(it), int(rr), dict(v.split("=") for v in vals.split(",") if v)))
    return "ok", rows, st


def call_line(sim, call):
    considered = sim.restart_numbers(call["skip_last"])
    av = ",".join("%d:%d:%d" % (r, min(sim.its_of(r)), max(sim.its_of(r))) for r in considered)
    req = ";".join(",".join(str(etgen.VAR_ID[c]) for c in etgen.components(n)) for n in call["vars"])
    return "read %s %d %s %s %d %d %d" % (av, 1 if sim_grouped(sim) else 0, req, ",".join(map(str, call["it"])),
                                           call["rl"], call["restart"], 1 if call["split"] else 0)


def sim_grouped(sim):
    """`variables_grouped` of the code: some file of the layout holds more than one variable"""
    return any(len(vs) > 1 for vs in sim.files_for().values())


# ----------------------------------------------------------------- histories
def random_history(rng, sim, ncalls, skip_last):
    d = sim.desc
    considered = sim.restart_numbers(skip_last)
    pool = sorted({i for r in d["restarts"] if r["number"] in considered for i in r["its"]})
    req = list(d["requests"])
    tensors = [n for n in req if n in etgen.TENSORS]
    calls = []
    for k in range(ncalls):
        mode = rng.random()
        if k == 0 and tensors and rng.random() < 0.6:
            # seed the cache with ONE component at FEW iterations: the partially filled
            # cache that the tensor request then meets
            names = [rng.choice(etgen.components(rng.choice(tensors)))]
            its = rng.sample(pool, rng.randint(1, max(1, len(pool) // 2)))
        elif mode < 0.35:
            names = rng.sample(req, rng.randint(1, len(req)))
            its = rng.sample(pool, rng.randint(1, len(pool)))
        elif mode < 0.7:
            names = [c for n in req for c in (etgen.components(n) if rng.random() < 0.6 else [n])]
            names = rng.sample(names, rng.randint(1, len(names)))
            its = rng.sample(pool, rng.randint(1, len(pool)))
        else:
            names = list(req)
            its = list(pool)
        if rng.random() < 0.2:
            its = its + [rng.choice(its)]
        call = {"it": its, "vars": names, "rl": rng.randrange(len(d["levels"])), "restart": -1,
                "skip_last": skip_last, "split": rng.random() < 0.75}
        if rng.random() < 0.2:
            r = rng.choice(considered)
            lo, hi = min(sim.its_of(r)), max(sim.its_of(r))
            if any(lo <= i <= hi for i in its):
                call["restart"] = r
        calls.append(call)
    return calls


def run_history(ctx, root, desc, calls):
    """-> (lines, real outputs [(status, rows, dump)], #violations)"""
    sim = etgen.Sim(root, desc).write()
    found = 0
    lines, reals = ["reset"], [None]
    try:
        param = sim.param()
        for ci, call in enumerate(calls):
            lines.append(call_line(sim, call))
            try:
                data = C11.do_read(param, call, split_per_it=call["split"])
                status, diff = "ok", C11.check_against_truth(sim, call, data)
                rows = real_rows(sim, call, data)
            except Exception as ex:  # noqa
                status, rows, diff = "err", [], "raised %s: %s" % (type(ex).__name__, str(ex)[:200])
            dump = dump_cache(sim)
            cdiff = cache_oracle(sim, dump)
            reals.append((status, rows, dump))
            ctx.count("history_calls")
            ctx.count("history_calls_split" if call["split"] else "history_calls_direct")
            for what, site in ((diff, "read_data"), (cdiff, "cache")):
                if what:
                    found += report(ctx, "call %d of a read history (%s, split_per_it=%s) on a %s/%s directory: %s" % (
                        ci + 1, {k: call[k] for k in ("it", "vars", "rl", "restart")}, call["split"],
                        "file-per-process" if desc["per_proc"] else "one-file",
                        "grouped" if desc["grouped"] else "one-variable-per-file", what),
                        {"kind": "history", "desc": sim.describe(), "calls": calls[:ci + 1]},
                        {"site": site, "grouped": desc["grouped"], "per_proc": desc["per_proc"],
                         "kind": what.split(":")[0][:40]})
    finally:
        sim.remove()
    return lines, reals, found


def compare(real, model_line):
    """None or a description of the first difference between code and model"""
    if real is None:
        return None if model_line == "ok" else "reset -> %s" % model_line
    status, rows, dump = real
    mstatus, mrows, mstore = parse_model(model_line)
    if status != mstatus:
        return "impl %s, model %s" % (status, mstatus)
    if status == "ok":
        if [it for it, _ in rows] != [it for it, _, _ in mrows]:
            return "iterations: impl %s, model %s" % ([it for it, _ in rows], [it for it, _, _ in mrows])
        for (it, row), (_, _, mrow) in zip(rows, mrows):
            if row != mrow:
                return "row it=%d: impl %s, model %s" % (it, row, mrow)
    if dump != mstore:
        ks = sorted(set(dump) ^ set(mstore)) or sorted(k for k in dump if dump[k] != mstore.get(k))
        k = ks[0]
        return "cache dataset %s: impl %s, model %s" % (k, dump.get(k, "absent"), mstore.get(k, "absent"))
    return None


def run(ctx):
    ctx.trusted += ["Lean 4.33 kernel; axioms propext, Classical.choice, Quot.sound",
                    "Model/ReadCache.lean is hand-written; tied to read_data(split_per_it=True/False) by "
                    "correspondence on read histories (returned rows and every cache dataset after every call)",
                    "the uncached read is the abstract source `src` of the model (what C11 establishes)",
                    "lib/etgen.py (generator and ground truth)", "h5py / HDF5"]
    ctx.assumptions += ["one simulation directory, cache initially empty, no concurrent writers",
                        "skip_last is fixed for a history (the catalogue iterations.txt is not part of the model)",
                        "vars=[] (read everything available) and checkpoints are outside the histories"]
    ctx.prove(MODULE, THEOREMS)
    ctx.forbidden_scan(LEAN_FILES)
    if ctx.tier == "thorough":
        ctx.leanchecker([MODULE])
    rng = ctx.rng
    tmp = tempfile.mkdtemp(prefix="c12_")
    found = 0
    try:
        all_lines, all_reals = [], []
        nd = ctx.budget(40, 200) + (8 if ctx.broken() else 0)
        layouts = {}
        for k in range(nd):
            per_proc, grouped = bool(k & 1), bool(k & 2)
            desc = etgen.random_desc(rng, "c12sim%d" % k, per_proc=per_proc, grouped=grouped,
                                     nlevels=1 + (k // 4) % 2, nmax=5, kmax=(2, 2, 2), gmax=2,
                                     nvars=rng.randint(1, 2), nits=4)
            if k % 3 == 0 and not any(n in etgen.TENSORS for n in desc["requests"]):
                t = rng.choice(sorted(etgen.TENSORS))
                desc["requests"].append(t)
                desc["vars"] = sorted(set(desc["vars"]) | set(etgen.components(t)))
            many_levels = (k % 10 == 5)
            if many_levels:
                # a run with twelve refinement levels (level labels 10, 11 next to 1): tiny one-chunk levels
                desc = etgen.random_desc(rng, "c12sim%d" % k, per_proc=False, grouped=grouped, nlevels=12, nrest=1,
                                         nmax=3, kmax=(1, 1, 1), gmax=1, nvars=1, nits=2)
            sim = etgen.Sim(tmp + "/", desc)
            skip_last = len(desc["restarts"]) >= 2 and rng.random() < 0.2
            calls = random_history(rng, sim, rng.randint(3, 8), skip_last)
            if many_levels:
                # cached at levels 11 and 10 first, then read at level 1 (twice: cold and from the cache), then 0 and 2
                for c, rl in zip(calls, [11, 10, 1, 1, 0, 2, 1, 11]):
                    c["rl"] = rl
                    c["split"] = True
                ctx.count("histories_with_12_levels")
            lay = "%s/%s" % ("proc" if per_proc else "onefile", "group" if grouped else "var")
            layouts[lay] = layouts.get(lay, 0) + 1
            if k == 0:
                ctx.sample({"history": calls[:3], "requests": desc["requests"], "restarts": desc["restarts"]})
            lines, reals, f = run_history(ctx, tmp + "/", desc, calls)
            found += f
            all_lines += lines
            all_reals += reals
        ctx.cov["history_directories"] = nd
        ctx.cov["history_layouts"] = layouts
        try:
            outs = ctx.run_driver("Driver/C12.lean", all_lines)
        except Exception as ex:  # noqa
            outs = None
            ctx.obligation("correspondence:driver", False, repr(ex), kind="correspondence")
        if outs is not None:
            bad = []
            for line, real, out in zip(all_lines, all_reals, outs):
                d = compare(real, out)
                if d:
                    bad.append("%s -> %s" % (line[:160], d[:300]))
            ctx.cov["correspondence_cases"] = len(all_lines)
            ctx.cov["cache_datasets_compared"] = sum(len(r[2]) for r in all_reals if r)
            ctx.sample({"correspondence_case": all_lines[1], "model_output": outs[1][:200]})
            ctx.obligation("correspondence: Model/ReadCache vs read_data histories (%d calls in %d directories; rows "
                           "and every cache dataset after every call)" % (len(all_lines) - nd, nd),
                           not bad, "; ".join(bad[:4]), kind="correspondence")
    finally:
        shutil.rmtree(tmp, ignore_errors=True)


def replay(ctx, obj):
    tmp = tempfile.mkdtemp(prefix="c12_replay_")
    try:
        class Quiet:
            cov = {}

            def count(self, *a):
                pass

            def violation(self, what, replay, fp=None):
                print("replay:", what)
                return True

            def match_known(self, fp):
                return None
        _, _, n = run_history(Quiet(), tmp + "/", obj["desc"], obj["calls"])
        print("replay history: %s" % ("still failing" if n else "now correct"))
        return 1 if n else 0
    finally:
        shutil.rmtree(tmp, ignore_errors=True)


MANIFEST = {
    "category": "proof",
    "technique": "Lean 4 theorems over a hand-written model of the split_per_it branch (abstract source, cache store "
                 "as a dictionary): store invariant by induction over every write of every call of every finite "
                 "history; model tied to the code by correspondence on random read histories with a complete dump "
                 "of the cache after every call",
    "text": "Proof for all finite histories of read_data calls (any iteration subsets, variable subsets, tensor or "
            "component names, levels, restarts, split_per_it on/off interleaved) starting from any cache that "
            "satisfies the invariant, in particular the empty one: every dataset ever written to an "
            "all_iterations/it_<n>.hdf5 file equals the source at the (variable, iteration, level, restart) it is "
            "filed under, and every value a call returns for a requested cell equals the source, whatever the cache "
            "held. The model (cache read, its_missing, union of missing iterations per variable, fill by nearest "
            "'it', save_data by position in data['it']) is tied to aurel.read_data by comparing, after every call of "
            "random histories on generated directories whose data differ at every iteration, the returned dict and "
            "every dataset of every cache file.",
    "note": "Trusted: Lean kernel + propext/Classical.choice/Quot.sound; the hand-written model (validated on 40 "
            "quick / 200 thorough directories x 3-8 calls, four layouts, 1-2 levels, 1-3 restarts); the uncached read "
            "as abstract source (C11); lib/etgen.py; h5py. skip_last fixed per history; vars=[] and checkpoints not "
            "covered.",
}
