#!/venv/bin/python
"""Markdown table of seeded changes and which check caught them (from seeded/*/result.json)."""
import glob, json, os
rows = []
for d in sorted(glob.glob('/verif/seeded/*')):
    try:
        m = json.load(open(os.path.join(d, 'meta.json')))
        r = json.load(open(os.path.join(d, 'result.json')))
    except Exception:
        continue
    for p, c in r['checks'].items():
        if c.get('control_failed'):
            continue
        how = []
        if c.get('broken_obligations'):
            names = []
            for b in c['broken_obligations']:
                t = b.split('BROKEN obligation ')[1].split(' ::')[0]
                names.append(t.replace('AurelVerif.', '')[:60])
            how.append('broken: ' + '; '.join(names[:3]) + (' …' if len(c['broken_obligations']) > 3 else ''))
        if c['n_violations']:
            how.append('%d VIOLATION line(s)%s' % (c['n_violations'], ' (no-failing-input-found)' if c['no_failing_input_found'] and c['n_violations'] == 1 else ' with replay'))
        first = (c.get('first_replay') or '')[:110]
        rows.append('| %s | %s | %s | %s | %s |' % (os.path.basename(d), m.get('summary', '')[:150].replace('|', '/'),
                    m.get('what_it_needs_to_manifest', '')[:150].replace('|', '/'),
                    'caught (rc=1)' if c['rc'] == 1 and c['n_violations'] else 'MISSED (rc=%s)' % c['rc'],
                    ('; '.join(how) + ('; e.g. ' + first if first else '')).replace('|', '/')))
import sys
table = '| seed | change | needs | ./check %s | how |\n|---|---|---|---|---|\n' % 'Cxx' + '\n'.join(rows)
if '--design' in sys.argv:
    dp = '/verif/DESIGN.md'
    t = open(dp).read()
    b, e = '<!-- SEEDTABLE:BEGIN -->', '<!-- SEEDTABLE:END -->'
    t = t[:t.index(b) + len(b)] + '\n' + table + '\n' + t[t.index(e):]
    open(dp, 'w').write(t)
else:
    print(table)
