#!/venv/bin/python
"""Regenerate MANIFEST.json from tools/props/*.py (each declares MANIFEST = {...})."""
import importlib
import json
import os
import sys

HERE = os.path.dirname(os.path.abspath(__file__))
VERIF = os.path.dirname(HERE)
sys.path.insert(0, HERE)

ALL = ["C%02d" % i for i in range(1, 21)]
checks, na = [], []
for pid in ALL:
    if not os.path.exists(os.path.join(HERE, "props", pid + ".py")):
        na.append({"property_id": pid, "reason": "check not built yet in this round (design in DESIGN.md section 8)"})
        continue
    mod = importlib.import_module("props." + pid)
    m = getattr(mod, "MANIFEST", None)
    if m is None or m.get("not_applicable"):
        na.append({"property_id": pid, "reason": (m or {}).get("not_applicable", "check module has no MANIFEST entry yet")})
        continue
    checks.append({
        "property_id": pid,
        "quick_cmd": "./check %s --tier quick" % pid,
        "thorough_cmd": "./check %s --tier thorough" % pid,
        "evidence_file": "evidence/%s.json" % pid,
        "replay_cmd_template": "./check %s --replay {path}" % pid,
        "engine": "lean4-proof",
        "level_claimed": {"category": m.get("category", "proof"), "text": m["text"], "design_ref": m.get("design_ref", "DESIGN.md section 8, " + pid)},
        "level_note": m["note"],
        "technique": m["technique"],
    })

manifest = {
    "version": 1,
    "setup_cmd": "sh tools/setup.sh",
    "hooks": {"guard": "AUREL_VERIF", "enable": "no source hooks are needed: every observation point is reached by wrapping the public API inside the harness process (AUREL_VERIF=1 is exported by ./check for completeness)",
              "baseline_off_cmd": "cd /repo && /venv/bin/python -m pytest -ra -q -p no:cacheprovider --timeout=900 --continue-on-collection-errors",
              "source_commits": [], "add_only": True},
    "engines": [{"name": "lean4-proof", "path": "lean/", "serves_properties": [c["property_id"] for c in checks],
                 "kind_free_text": "Lean 4.33 + Mathlib theorems about a model that is regenerated from /repo by tools/py2lean (generated parts) or tied to it by a line-protocol correspondence check (hand-written parts); failing-input search on the real code when an obligation breaks"}],
    "checks": checks,
    "not_applicable": na,
    "notes": "See DESIGN.md. ./check Cxx --tier quick|thorough; exit 0/1/2; evidence/Cxx.json rewritten by every run.",
}
json.dump(manifest, open(os.path.join(VERIF, "MANIFEST.json"), "w"), indent=1)
print("checks:", [c["property_id"] for c in checks], "n/a:", len(na))
